#![no_main]
use libfuzzer_sys::fuzz_target;
use std::sync::OnceLock;

#[global_allocator]
static GLOBAL: vcheck::PoisonAlloc = vcheck::PoisonAlloc;

static TARGET: OnceLock<SendTarget> = OnceLock::new();
struct SendTarget(vcheck::fuzz::Target);
// libFuzzer drives the target from one thread; the wrapper only satisfies OnceLock's bounds
unsafe impl Send for SendTarget {}
unsafe impl Sync for SendTarget {}

fuzz_target!(|data: &[u8]| {
    let t = TARGET.get_or_init(|| {
        let id = std::env::var("VERIF_FUZZ_PROP").unwrap_or_else(|_| {
            eprintln!("set VERIF_FUZZ_PROP=<property id>");
            std::process::exit(2)
        });
        SendTarget(vcheck::fuzz::target(&id))
    });
    vcheck::fuzz::one(&t.0, data);
});
