#!/usr/bin/env python3
"""Regenerates MANIFEST.json from the table below (keeps it valid at all times)."""
import json, os, subprocess
V = os.path.dirname(os.path.abspath(__file__))
props = [json.loads(l) for l in open(os.path.join(V, "properties.jsonl"))]
ids = [p["id"] for p in props]

# id -> (engine, technique, level text, level note, design ref)
CLAIMED = {
 "C17": ("E-GZ", "proptest stateful generation of gz operation sequences (write and read side) on real files; in-memory model of the logical stream + reference gzip parser/decoder as oracle, zlib-ng's gz layer in lock-step as arbiter",
         "exploration: write side - every return value/gztell equals the model and the file is a valid sequence of gzip members (or plain bytes in transparent mode) decoding to the logical stream, for all open modes, gzbuffer sizes from 8 bytes, flushes incl. Z_FINISH (multi-member), gzsetparams, forward seeks, append; read side - gzread/gzfread/gzgetc/gzgets/gzungetc data, gztell, gzeof, gzdirect follow the logical stream of gzip/multi-member/garbage-suffixed/plain/empty files under arbitrary seeks and buffer sizes",
         "a deviation from the model is reported only when zlib-ng agrees with the model; where the manual is silent (push-back capacity, gzgets(len 1), seeks relative to a pending forward seek, truncated/corrupt files) the model has no opinion and differences are only counted; glibc M_PERTURB makes uninitialised reads deterministic", "DESIGN.md 6 (C17)"),
 "C19": ("E-BACK", "proptest generation of raw deflate byte strings (valid for the window, single-fault, distances beyond the window, encoder output, mutated, noise) x window bits x input-callback slicing x output-callback abort; guard-paged window and input slices; reference decoder / construction as oracle",
         "exploration: for every input no signal/abort, out() only ever sees regions inside the caller's window, canaries beside the window intact, callbacks bounded; for streams valid for the window and non-distance faults the bytes handed to out(), the status (STREAM_END / DATA_ERROR / BUF_ERROR with NULL or non-NULL next_in) and the unused input correspond to inflate's verdict",
         "for streams with a too-far distance only safety and termination are claimed (inflateBack, like zlib's, does not promise an error for distances within the window but beyond the produced data)", "DESIGN.md 6 (C19)"),
 "C06": ("E-PROG (deflate), E-DEF", "proptest stateful generation (operation sequences with arbitrary integer arguments, shrunk as one value) + legal sessions; guard-page buffers, process isolation, status-domain and progress oracles",
         "exploration: generated programs over the whole deflate API (incl. hundreds of deflatePrime calls, resets, copies, big gzip header fields, 0/1-byte buffers) must not kill the worker, must return only statuses the zlib manual lists, and a Z_FINISH loop with fresh space must produce >= 1 byte per call and end; legal sessions (arbitrary deflateTune integers) must finish, and sessions that saw Z_BUF_ERROR must still round-trip",
         "documented preconditions are built in (valid pointers, deflatePrime on raw streams before the first deflate with bits <= 16); a hang inside one call is exit 2 (watchdog), not a violation", "DESIGN.md 6 (C06)"),
 "C16": ("E-PROG + zlib-ng", "proptest stateful generation of API programs (<= 48 operations, arbitrary integer arguments, NULL stream/buffers where zlib defines the result) executed on zlib-ng 2.3.3 (pre-screened in a forked child) and zlib-rs in lock-step; differential oracle per operation",
         "exploration: per operation equal return value and, for data-moving operations, equal bytes consumed/produced and output bytes; reference-validity rules documented in DESIGN.md (32 KiB inflate windows only, deflatePrime/inflatePrime in their documented position, ResetKeep after an error run as Reset, zlib-ng's stale-state-dependent output after deflateReset re-judged against zlib-ng fresh, slot after deflateResetKeep at level 1 not compared)",
         "zlib-ng is the specification only where it is itself consistent; known finding: inflateUndermine status (pinned by an upstream test)", "DESIGN.md 6 (C16)"),
 "C10": ("E-TWIN", "proptest generation of histories x twin axis (CPU mask via hook H1, garbage fill of output/allocator memory, buffer placement, 2..16 concurrent threads); per-call comparison of twins; per-case digests compared across the ref, scalar (no std) and AVX-512 builds by the driver",
         "exploration: the same deflate/inflate history executed under two CPU masks / fills / placements, in concurrent threads vs alone, and in three differently dispatched builds must agree on every status, counter, adler, data_type and output byte",
         "threads: the harness does not own the schedule; with one relaxed atomic as the only shared state this is evidence of independence, not an exploration of interleavings. NEON/LSX/wasm paths are not compiled here", "DESIGN.md 6 (C10)"),
 "C18": ("E-ALLOC", "proptest generation of histories; exhaustive enumeration of the failing allocation request (fail k-th, fail all from k) per history; tracking allocator with live set, opaque check, poison on free",
         "fault_enumeration: for every generated deflate / inflate / inflateBack history (with dictionary, copy, reset, early End of the copy) every allocation request index is made to fail in both modes; the failing call must return Z_MEM_ERROR, the caller's ordinary clean-up (End on every stream incl. the destination of a failed copy) must leave the live set empty with no double/foreign free, re-init must work and surviving streams must reproduce the control output",
         "zlib-rs makes one allocation per init/copy, so N is 1..2 per history and the enumeration in k is complete; the gz layer allocates through the Rust global allocator: there the harness's counting / failing #[global_allocator], armed only during gz calls, plays the caller-supplied allocator (balanced after gzclose / refused gzopen, every failing request enumerated)", "DESIGN.md 6 (C18)"),
 "C14": ("E-TWIN", "proptest generation of (history, cut point, continuation); twin execution in lock-step with per-call comparison; poisoning allocator",
         "exploration: deflateCopy/inflateCopy twins (original, copy, never-copied control; generated interleaving, one twin ended early) and reset twins (deflateReset, inflateReset, inflateReset2, Deflate::reset, Inflate::reset vs fresh init with the current parameters) must agree per call on status, bytes consumed/produced, totals, adler, data_type and output bytes",
         "inflateReset with windowBits 0 is compared through inflateReset2 only (like zlib, the window taken from the first header becomes the stream's parameter); deflateResetKeep is not claimed equal to a fresh init (it keeps the window by contract)", "DESIGN.md 6 (C14)"),
 "C13": ("E-DICT", "proptest generation of (dictionary, data, config, flow, chunking, get-dictionary points); model strings + bitwise Adler-32 as oracle",
         "exploration: zlib/raw/raw-mid-stream/gzip-refusal flows through libz_rs_sys and the Rust wrappers: FDICT/DICTID, NEED_DICT id, rejection of a dictionary with another Adler-32, acceptance of a different dictionary with the same Adler-32, round trip, inflateGetDictionary = last min(n, 32768) bytes exactly, deflateGetDictionary = suffix of dictionary + consumed input with the documented length slack",
         "deflateGetDictionary length may be up to 262 bytes short of the window after a slide and restarts after a completed FULL flush (zlib forgets the history there); content is compared exactly", "DESIGN.md 6 (C13)"),
 "C15": ("E-DEF, E-INF", "proptest generation of deflate/inflate sessions and one-shot calls; per-call accounting invariants as oracle",
         "exploration: after every call of generated sessions (valid, invalid, truncated, trailing garbage; C API and Rust wrappers) cursor/avail/total deltas agree and never underflow, BUF_ERROR only without progress, dictionary bytes counted on the C deflate side; compress2/uncompress/uncompress2 lengths equal the construction-known stream and data lengths",
         "the dictionary bytes zlib counts are those it loads (at most one window); *destLen = 0 handling of uncompress is a recorded known finding (zlib-compatible)", "DESIGN.md 6 (C15)"),
 "C20": ("E-DEF (write), E-INF (read)", "proptest generation of gz_header contents x memLevel x output chunking (write) and R-GEN gzip streams x input chunking x capture capacities with guard pages (read); RFC 1952 parser as oracle",
         "exploration: the emitted header equals the supplied fields bit for bit (incl. fields larger than the pending buffer with 1-byte output, C boolean ints for text/hcrc, FHCRC) and the body still decodes; captured fields equal the stream's up to the announced capacity, absent fields are NULL, done follows the header/-1 protocol, nothing is written past *_max (guard pages)",
         "trusts R-GZH/R-CK; header strings are NUL-free by construction as the API requires", "DESIGN.md 6 (C20)"),
 "C01": ("E-DEF->E-INF", "proptest tape generation of (config, data recipe, legal deflate schedule incl. params/tune/flushes) with shrinking; round-trip oracle through zlib-rs inflate one-shot and chunked",
         "exploration: generated sessions over all levels/strategies/windows/memLevels/wrappers with inputs of several window sizes and adversarial per-call buffers (0/1 byte up to 400000) on libz_rs_sys, zlib_rs::Deflate and compress_slice must decompress to exactly the input with STREAM_END consuming the whole stream",
         "round-trip oracle uses zlib-rs's own inflate (as the property states); legality of schedules follows the zlib manual (flush repeated until avail_out > 0, only FINISH after FINISH)", "DESIGN.md 6 (C01)"),
 "C02": ("E-INF", "proptest generation of untrusted byte strings x any windowBits x schedules; guard-page buffers + process isolation + counting oracles",
         "exploration: noise, mutated and faulted streams under every windowBits inflateInit2 accepts, with 0/1-byte buffers, header capture capacities and the one-shot helpers; every caller buffer ends at a PROT_NONE page, the worker process is the observation unit (signal/abort = violation, confirmed and shrunk from the journaled tape)",
         "guard pages see overruns of caller buffers only (library-internal overruns need the asan variant); a hang inside one call is reported as exit 2 (inconclusive) by the watchdog; one case in eight goes through inflateBack (C19's engine, safety oracles only) and header-capture cases also run on streams reused after inflateReset", "DESIGN.md 6 (C02)"),
 "C04": ("E-INF", "proptest generation of byte strings x 4 schedules of (avail_in, avail_out, flush) per case; metamorphic oracle against the one-call baseline",
         "exploration: every generated schedule (chunks from 0/1 byte to > 32 KiB, all five flush modes, then deliver-everything) must reach the baseline's (output bytes, final status class, total_in) on libz_rs_sys::inflate and zlib_rs::Inflate",
         "decoder window kept >= the largest distance of generated streams (zlib's outcome is schedule-dependent otherwise); mutated/noise inputs use 32 KiB windows", "DESIGN.md 6 (C04)"),
 "C05": ("E-DEF", "proptest generation of deflate sessions (incl. dictionaries, gzip headers); oracle = independent wrapper parser + strict RFC 1951 decoder limited to the announced window",
         "exploration: the complete output of every generated session is parsed (header fields incl. FLEVEL/XFL/FDICT/DICTID/FHCRC) and decoded by R-DEC strict (complete codes, distances <= min(window, produced + dictionary), trailer, nothing after)",
         "trusts R-DEC/R-GZH/R-CK; FLEVEL/XFL expectations follow zlib's level-hint rule evaluated at header time", "DESIGN.md 6 (C05)"),
 "C07": ("E-DEF (single Finish)", "proptest generation of (config, header, dictionary, length, adversarial data family); bound oracle with guard page after the bound-sized buffer",
         "exploration: one deflate(Z_FINISH) into deflateBound bytes must end the stream; compress2/compress/compress_slice into compressBound must succeed; lengths 0..64 and thresholds around lit_bufsize, window and 64 KiB are sampled densely",
         "one known finding (raw exact fit: Z_OK instead of Z_STREAM_END) is matched by exact signature; a bound that is exceeded is a different signature", "DESIGN.md 6 (C07)"),
 "C08": ("E-INF", "proptest generation of wrapped streams with targeted syntax-preserving corruptions x trailer-splitting schedules; universal end-of-stream oracle recomputing Adler-32/CRC-32/ISIZE/FHCRC",
         "exploration: on every STREAM_END the consumed trailer and header CRC are recomputed from the bytes actually output with bitwise reference checksums; payload/trailer/FHCRC-covered bit flips must end in DATA_ERROR under every schedule (outputs > 32 KiB per call, 1-byte calls, splits inside the trailer)",
         "trusts R-CK; one gzip stream of 4 GiB + 3 MiB (made by zlib-ng), intact and with ISIZE / CRC damaged, covers 'length mod 2^32' (zlib-ng's CRC-32 is the reference there: a bitwise CRC over 4 GiB would take minutes)", "DESIGN.md 6 (C08)"),
 "C11": ("E-DEF", "proptest generation of flush-heavy deflate sessions; incremental strict reference decoding at every completed flush point",
         "exploration: at every PARTIAL/SYNC/FULL flush that returns with avail_out > 0 the bytes so far decode (R-DEC strict) to exactly the input supplied so far; marker 00 00 FF FF and byte alignment for SYNC/FULL; after FULL all later data decodes with only the history since that point",
         "flush points are those the zlib manual defines (call returned with avail_out > 0); trusts R-DEC", "DESIGN.md 6 (C11)"),
 "C12": ("E-DEF + zlib-ng", "proptest generation of deflate sessions executed as the canonical application loop on zlib-rs and zlib-ng 2.3.3; differential oracle on the total output",
         "exploration: identical compressed bytes and stream end for generated (config, data, chunk boundaries, flush kinds, params/tune changes, dictionaries, gzip headers); cases where zlib-ng's own output fails the strict reference decoder are dropped and counted",
         "zlib-ng 2.3.3 as vendored in libz-sys 1.1.29 is the reference; per-call movement is compared under C16, not here", "DESIGN.md 6 (C12)"),
 "C03": ("E-GEN->E-INF", "proptest tape generation of ground-truth deflate streams (R-GEN) with single-fault injection, mutation and prefixes + exhaustive enumeration of short raw streams; oracle = independent RFC decoder R-DEC arbitrated by zlib-ng",
         "exploration: generated valid/faulted/prefix/mutated/encoder-made streams under every wrapper and decoder mode are decoded one-shot and under a generated chunk schedule and compared with an independent strict RFC 1951/1950/1952 decoder whose verdict is cross-checked against the construction label on every case; all raw streams of <= 2 bytes (quick) / <= 3 bytes (thorough) are enumerated",
         "trusts R-DEC/R-GZH/R-GEN in harness/src/refimpl (cross-checked per case against each other and zlib-ng 2.3.3; a disagreement among the oracles is exit 2, never a violation); decoder window is kept >= the largest distance the generator used, because zlib's verdict is schedule-dependent otherwise", "DESIGN.md 6 (C03)"),
 "C09": ("E-CK", "proptest tape generation + exhaustive length x alignment grid per CPU mask against bitwise reference checksums",
         "exploration: every (length 0..=1100 x 64 alignments) and (length 0..=16784 x 4 alignments) cell for 3 data families, 3 start values and every implementation reachable on this CPU (hook mask, scalar build, AVX-512 build) is enumerated against the definitions; beyond the grid, generated calls incl. combine with len2 up to 2^63",
         "trusts the bit-at-a-time CRC-32 / per-byte-modulo Adler-32 / GF(2) square-and-multiply in harness/src/refimpl/rck.rs; NEON/LSX/wasm implementations are not compiled on x86_64", "DESIGN.md 6 (C09)"),
}
hooks_commits = subprocess.run(["git", "-C", "/repo", "log", "--format=%H %s", "--grep=verif hook"], capture_output=True, text=True).stdout.strip().splitlines()
man = {
 "version": 1,
 "setup_cmd": "cd /verif && ./setup.sh",
 "hooks": {
  "guard": "--cfg zlib_rs_verif",
  "enable": "RUSTFLAGS=\"--cfg zlib_rs_verif\" cargo build --release (set by /verif/check for every harness variant)",
  "baseline_off_cmd": "cd /repo && cargo nextest run --workspace --no-fail-fast --offline || cargo test --workspace --no-fail-fast --offline",
  "source_commits": [l.split()[0] for l in hooks_commits],
  "add_only": True,
 },
 "engines": [
  {"name": "vcheck", "path": "harness/", "serves_properties": sorted(CLAIMED), "kind_free_text": "Rust worker binary: proptest-driven tape generator with shrinking, enumeration phases, independent reference oracles; python driver ./check spawns 16 workers, confirms and shrinks failures, merges evidence"},
  {"name": "vcheck-fuzz", "path": "fuzz/", "serves_properties": sorted(CLAIMED), "kind_free_text": "cargo-fuzz crate with one libFuzzer + AddressSanitizer target (VERIF_FUZZ_PROP selects the property); the fuzz input is the same tape, decoded by the same generator and judged by the same oracle as in vcheck; run by the thorough tier of every check (16 processes sharing a corpus), crash artifacts are confirmed on the ref worker before they count"},
 ],
 "checks": [],
 "not_applicable": [],
 "notes": "All checks: cd /verif && ./check <ID> quick|thorough ; replay: ./check <ID> --replay <file>. exit 2 = inconclusive (never a violation).",
}
for i in ids:
    if i in CLAIMED:
        eng, tech, text, note, ref = CLAIMED[i]
        man["checks"].append({
         "property_id": i,
         "quick_cmd": "cd /verif && ./check %s quick" % i,
         "thorough_cmd": "cd /verif && ./check %s thorough" % i,
         "evidence_file": "/verif/evidence/%s.json" % i,
         "replay_cmd_template": "cd /verif && ./check %s --replay {path}" % i,
         "engine": eng,
         "level_claimed": {"category": "fault_enumeration" if i == "C18" else "exploration", "text": text, "design_ref": ref},
         "level_note": note,
         "technique": tech,
        })
    else:
        man["not_applicable"].append({"property_id": i, "reason": "check not built yet in this session (designed in DESIGN.md section 6; property-based testing applies, nothing is claimed until the check exists)"})
json.dump(man, open(os.path.join(V, "MANIFEST.json"), "w"), indent=1)
print("claimed:", sorted(CLAIMED))
