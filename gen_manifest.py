#!/usr/bin/env python3
"""Regenerates MANIFEST.json from the table below (keeps it valid at all times)."""
import json, os, subprocess
V = os.path.dirname(os.path.abspath(__file__))
props = [json.loads(l) for l in open(os.path.join(V, "properties.jsonl"))]
ids = [p["id"] for p in props]

# id -> (engine, technique, level text, level note, design ref)
CLAIMED = {
 "C03": ("E-GEN->E-INF", "proptest tape generation of ground-truth deflate streams (R-GEN) with single-fault injection, mutation and prefixes + exhaustive enumeration of short raw streams; oracle = independent RFC decoder R-DEC arbitrated by zlib-ng",
         "exploration: generated valid/faulted/prefix/mutated/encoder-made streams under every wrapper and decoder mode are decoded one-shot and under a generated chunk schedule and compared with an independent strict RFC 1951/1950/1952 decoder whose verdict is cross-checked against the construction label on every case; all raw streams of <= 2 bytes (quick) / <= 3 bytes (thorough) are enumerated",
         "trusts R-DEC/R-GZH/R-GEN in harness/src/refimpl (cross-checked per case against each other and zlib-ng 2.3.3; a disagreement among the oracles is exit 2, never a violation); decoder window is kept >= the largest distance the generator used, because zlib's verdict is schedule-dependent otherwise", "DESIGN.md 6 (C03)"),
 "C09": ("E-CK", "proptest tape generation + exhaustive length x alignment grid per CPU mask against bitwise reference checksums",
         "exploration: every (length 0..=1100 x 64 alignments) and (length 0..=16784 x 4 alignments) cell for 3 data families, 3 start values and every implementation reachable on this CPU (hook mask, scalar build, AVX-512 build) is enumerated against the definitions; beyond the grid, generated calls incl. combine with len2 up to 2^63",
         "trusts the bit-at-a-time CRC-32 / per-byte-modulo Adler-32 / GF(2) square-and-multiply in harness/src/refimpl/rck.rs; NEON/LSX/wasm implementations are not compiled on x86_64", "DESIGN.md 6 (C09)"),
}
hooks_commits = subprocess.run(["git", "-C", "/repo", "log", "--format=%H %s", "--grep=verif hook"], capture_output=True, text=True).stdout.strip().splitlines()
man = {
 "version": 1,
 "setup_cmd": "cd /verif && ./setup.sh",
 "hooks": {
  "guard": "--cfg zlib_rs_verif",
  "enable": "RUSTFLAGS=\"--cfg zlib_rs_verif\" cargo build --release (set by /verif/check for every harness variant)",
  "baseline_off_cmd": "cd /repo && cargo nextest run --workspace --no-fail-fast --offline || cargo test --workspace --no-fail-fast --offline",
  "source_commits": [l.split()[0] for l in hooks_commits],
  "add_only": True,
 },
 "engines": [
  {"name": "vcheck", "path": "harness/", "serves_properties": sorted(CLAIMED), "kind_free_text": "Rust worker binary: proptest-driven tape generator with shrinking, enumeration phases, independent reference oracles; python driver ./check spawns 16 workers, confirms and shrinks failures, merges evidence"},
 ],
 "checks": [],
 "not_applicable": [],
 "notes": "All checks: cd /verif && ./check <ID> quick|thorough ; replay: ./check <ID> --replay <file>. exit 2 = inconclusive (never a violation).",
}
for i in ids:
    if i in CLAIMED:
        eng, tech, text, note, ref = CLAIMED[i]
        man["checks"].append({
         "property_id": i,
         "quick_cmd": "cd /verif && ./check %s quick" % i,
         "thorough_cmd": "cd /verif && ./check %s thorough" % i,
         "evidence_file": "/verif/evidence/%s.json" % i,
         "replay_cmd_template": "cd /verif && ./check %s --replay {path}" % i,
         "engine": eng,
         "level_claimed": {"category": "fault_enumeration" if i == "C18" else "exploration", "text": text, "design_ref": ref},
         "level_note": note,
         "technique": tech,
        })
    else:
        man["not_applicable"].append({"property_id": i, "reason": "check not built yet in this session (designed in DESIGN.md section 6; property-based testing applies, nothing is claimed until the check exists)"})
json.dump(man, open(os.path.join(V, "MANIFEST.json"), "w"), indent=1)
print("claimed:", sorted(CLAIMED))
