//! One trait over the two C APIs: zlib-rs (`libz_rs_sys`, Rust symbols) and zlib-ng in zlib-compat
//! mode (`libz-sys`, C symbols). Both use the same `z_stream`/`gz_header` layout.
#![allow(non_snake_case)]
use core::ffi::{c_char, c_int, c_long, c_uint, c_ulong, c_void};
pub use libz_rs_sys::{gz_header, z_stream};

pub type InFunc = unsafe extern "C" fn(*mut c_void, *mut *const u8) -> c_uint;
pub type OutFunc = unsafe extern "C" fn(*mut c_void, *mut u8, c_uint) -> c_int;

pub mod ngsys {
    use super::*;
    extern "C" {
        pub fn zlibVersion() -> *const c_char;
        pub fn inflateInit2_(strm: *mut z_stream, windowBits: c_int, version: *const c_char, stream_size: c_int) -> c_int;
        pub fn inflateInit_(strm: *mut z_stream, version: *const c_char, stream_size: c_int) -> c_int;
        pub fn inflate(strm: *mut z_stream, flush: c_int) -> c_int;
        pub fn inflateEnd(strm: *mut z_stream) -> c_int;
        pub fn inflateReset(strm: *mut z_stream) -> c_int;
        pub fn inflateReset2(strm: *mut z_stream, windowBits: c_int) -> c_int;
        pub fn inflateResetKeep(strm: *mut z_stream) -> c_int;
        pub fn inflateCopy(dest: *mut z_stream, source: *mut z_stream) -> c_int;
        pub fn inflateSetDictionary(strm: *mut z_stream, dictionary: *const u8, dictLength: c_uint) -> c_int;
        pub fn inflateGetDictionary(strm: *mut z_stream, dictionary: *mut u8, dictLength: *mut c_uint) -> c_int;
        pub fn inflateGetHeader(strm: *mut z_stream, head: *mut gz_header) -> c_int;
        pub fn inflatePrime(strm: *mut z_stream, bits: c_int, value: c_int) -> c_int;
        pub fn inflateSync(strm: *mut z_stream) -> c_int;
        pub fn inflateSyncPoint(strm: *mut z_stream) -> c_int;
        pub fn inflateMark(strm: *mut z_stream) -> c_long;
        pub fn inflateValidate(strm: *mut z_stream, check: c_int) -> c_int;
        pub fn inflateUndermine(strm: *mut z_stream, subvert: c_int) -> c_int;
        pub fn inflateCodesUsed(strm: *mut z_stream) -> c_ulong;
        pub fn inflateBackInit_(strm: *mut z_stream, windowBits: c_int, window: *mut u8, version: *const c_char, stream_size: c_int) -> c_int;
        pub fn inflateBack(strm: *mut z_stream, in_: Option<InFunc>, in_desc: *mut c_void, out: Option<OutFunc>, out_desc: *mut c_void) -> c_int;
        pub fn inflateBackEnd(strm: *mut z_stream) -> c_int;
        pub fn deflateInit2_(strm: *mut z_stream, level: c_int, method: c_int, windowBits: c_int, memLevel: c_int, strategy: c_int, version: *const c_char, stream_size: c_int) -> c_int;
        pub fn deflateInit_(strm: *mut z_stream, level: c_int, version: *const c_char, stream_size: c_int) -> c_int;
        pub fn deflate(strm: *mut z_stream, flush: c_int) -> c_int;
        pub fn deflateEnd(strm: *mut z_stream) -> c_int;
        pub fn deflateReset(strm: *mut z_stream) -> c_int;
        pub fn deflateResetKeep(strm: *mut z_stream) -> c_int;
        pub fn deflateCopy(dest: *mut z_stream, source: *mut z_stream) -> c_int;
        pub fn deflateParams(strm: *mut z_stream, level: c_int, strategy: c_int) -> c_int;
        pub fn deflateTune(strm: *mut z_stream, good: c_int, lazy: c_int, nice: c_int, chain: c_int) -> c_int;
        pub fn deflatePrime(strm: *mut z_stream, bits: c_int, value: c_int) -> c_int;
        pub fn deflatePending(strm: *mut z_stream, pending: *mut c_uint, bits: *mut c_int) -> c_int;
        pub fn deflateBound(strm: *mut z_stream, sourceLen: c_ulong) -> c_ulong;
        pub fn deflateSetDictionary(strm: *mut z_stream, dictionary: *const u8, dictLength: c_uint) -> c_int;
        pub fn deflateGetDictionary(strm: *mut z_stream, dictionary: *mut u8, dictLength: *mut c_uint) -> c_int;
        pub fn deflateSetHeader(strm: *mut z_stream, head: *mut gz_header) -> c_int;
        pub fn compress(dest: *mut u8, destLen: *mut c_ulong, source: *const u8, sourceLen: c_ulong) -> c_int;
        pub fn compress2(dest: *mut u8, destLen: *mut c_ulong, source: *const u8, sourceLen: c_ulong, level: c_int) -> c_int;
        pub fn compressBound(sourceLen: c_ulong) -> c_ulong;
        pub fn uncompress(dest: *mut u8, destLen: *mut c_ulong, source: *const u8, sourceLen: c_ulong) -> c_int;
        pub fn uncompress2(dest: *mut u8, destLen: *mut c_ulong, source: *const u8, sourceLen: *mut c_ulong) -> c_int;
        pub fn adler32(adler: c_ulong, buf: *const u8, len: c_uint) -> c_ulong;
        pub fn crc32(crc: c_ulong, buf: *const u8, len: c_uint) -> c_ulong;
        pub fn adler32_combine(a: c_ulong, b: c_ulong, len2: c_long) -> c_ulong;
        pub fn crc32_combine(a: c_ulong, b: c_ulong, len2: c_long) -> c_ulong;
    }
}

pub const SS: c_int = core::mem::size_of::<z_stream>() as c_int;

pub trait Z {
    const NAME: &'static str;
    const IS_NG: bool;
    unsafe fn inflateInit2(strm: *mut z_stream, wbits: c_int) -> c_int;
    unsafe fn inflate(strm: *mut z_stream, flush: c_int) -> c_int;
    unsafe fn inflateEnd(strm: *mut z_stream) -> c_int;
    unsafe fn inflateReset(strm: *mut z_stream) -> c_int;
    unsafe fn inflateReset2(strm: *mut z_stream, wbits: c_int) -> c_int;
    unsafe fn inflateResetKeep(strm: *mut z_stream) -> c_int;
    unsafe fn inflateCopy(dest: *mut z_stream, src: *mut z_stream) -> c_int;
    unsafe fn inflateSetDictionary(strm: *mut z_stream, d: *const u8, n: c_uint) -> c_int;
    unsafe fn inflateGetDictionary(strm: *mut z_stream, d: *mut u8, n: *mut c_uint) -> c_int;
    unsafe fn inflateGetHeader(strm: *mut z_stream, h: *mut gz_header) -> c_int;
    unsafe fn inflatePrime(strm: *mut z_stream, bits: c_int, value: c_int) -> c_int;
    unsafe fn inflateSync(strm: *mut z_stream) -> c_int;
    unsafe fn inflateSyncPoint(strm: *mut z_stream) -> c_int;
    unsafe fn inflateMark(strm: *mut z_stream) -> c_long;
    unsafe fn inflateValidate(strm: *mut z_stream, check: c_int) -> c_int;
    unsafe fn inflateUndermine(strm: *mut z_stream, v: c_int) -> c_int;
    unsafe fn inflateCodesUsed(strm: *mut z_stream) -> c_ulong;
    unsafe fn inflateBackInit(strm: *mut z_stream, wbits: c_int, window: *mut u8) -> c_int;
    unsafe fn inflateBack(strm: *mut z_stream, i: Option<InFunc>, id: *mut c_void, o: Option<OutFunc>, od: *mut c_void) -> c_int;
    unsafe fn inflateBackEnd(strm: *mut z_stream) -> c_int;
    unsafe fn deflateInit2(strm: *mut z_stream, level: c_int, method: c_int, wbits: c_int, mem: c_int, strategy: c_int) -> c_int;
    unsafe fn deflate(strm: *mut z_stream, flush: c_int) -> c_int;
    unsafe fn deflateEnd(strm: *mut z_stream) -> c_int;
    unsafe fn deflateReset(strm: *mut z_stream) -> c_int;
    unsafe fn deflateResetKeep(strm: *mut z_stream) -> c_int;
    unsafe fn deflateCopy(dest: *mut z_stream, src: *mut z_stream) -> c_int;
    unsafe fn deflateParams(strm: *mut z_stream, level: c_int, strategy: c_int) -> c_int;
    unsafe fn deflateTune(strm: *mut z_stream, g: c_int, l: c_int, n: c_int, c: c_int) -> c_int;
    unsafe fn deflatePrime(strm: *mut z_stream, bits: c_int, value: c_int) -> c_int;
    unsafe fn deflatePending(strm: *mut z_stream, p: *mut c_uint, b: *mut c_int) -> c_int;
    unsafe fn deflateBound(strm: *mut z_stream, n: c_ulong) -> c_ulong;
    unsafe fn deflateSetDictionary(strm: *mut z_stream, d: *const u8, n: c_uint) -> c_int;
    unsafe fn deflateGetDictionary(strm: *mut z_stream, d: *mut u8, n: *mut c_uint) -> c_int;
    unsafe fn deflateSetHeader(strm: *mut z_stream, h: *mut gz_header) -> c_int;
    unsafe fn compress2(dest: *mut u8, dl: *mut c_ulong, src: *const u8, sl: c_ulong, level: c_int) -> c_int;
    unsafe fn compress(dest: *mut u8, dl: *mut c_ulong, src: *const u8, sl: c_ulong) -> c_int;
    unsafe fn compressBound(n: c_ulong) -> c_ulong;
    unsafe fn uncompress(dest: *mut u8, dl: *mut c_ulong, src: *const u8, sl: c_ulong) -> c_int;
    unsafe fn uncompress2(dest: *mut u8, dl: *mut c_ulong, src: *const u8, sl: *mut c_ulong) -> c_int;
}

pub struct Rs;
pub struct Ng;

macro_rules! fwd {
    ($m:path; $($name:ident ( $($a:ident : $t:ty),* ) -> $r:ty ;)*) => {
        $( unsafe fn $name($($a: $t),*) -> $r { unsafe { { use $m as m; m::$name($($a),*) } } } )*
    };
}

impl Z for Rs {
    const NAME: &'static str = "zlib-rs";
    const IS_NG: bool = false;
    unsafe fn inflateInit2(strm: *mut z_stream, wbits: c_int) -> c_int {
        unsafe { libz_rs_sys::inflateInit2_(strm, wbits, libz_rs_sys::zlibVersion(), SS) }
    }
    unsafe fn inflateBackInit(strm: *mut z_stream, wbits: c_int, window: *mut u8) -> c_int {
        unsafe { libz_rs_sys::inflateBackInit_(strm, wbits, window, libz_rs_sys::zlibVersion(), SS) }
    }
    unsafe fn deflateInit2(strm: *mut z_stream, level: c_int, method: c_int, wbits: c_int, mem: c_int, strategy: c_int) -> c_int {
        unsafe { libz_rs_sys::deflateInit2_(strm, level, method, wbits, mem, strategy, libz_rs_sys::zlibVersion(), SS) }
    }
    unsafe fn inflateCopy(dest: *mut z_stream, src: *mut z_stream) -> c_int {
        unsafe { libz_rs_sys::inflateCopy(dest, src) }
    }
    unsafe fn inflateMark(strm: *mut z_stream) -> c_long {
        unsafe { libz_rs_sys::inflateMark(strm) }
    }
    unsafe fn inflateGetDictionary(strm: *mut z_stream, d: *mut u8, n: *mut c_uint) -> c_int {
        unsafe { libz_rs_sys::inflateGetDictionary(strm, d, n) }
    }
    unsafe fn deflateGetDictionary(strm: *mut z_stream, d: *mut u8, n: *mut c_uint) -> c_int {
        unsafe { libz_rs_sys::deflateGetDictionary(strm, d, n) }
    }
    unsafe fn inflateBack(strm: *mut z_stream, i: Option<InFunc>, id: *mut c_void, o: Option<OutFunc>, od: *mut c_void) -> c_int {
        unsafe { libz_rs_sys::inflateBack(strm, i, id, o, od) }
    }
    fwd! { libz_rs_sys;
        inflate(strm: *mut z_stream, flush: c_int) -> c_int;
        inflateEnd(strm: *mut z_stream) -> c_int;
        inflateReset(strm: *mut z_stream) -> c_int;
        inflateReset2(strm: *mut z_stream, wbits: c_int) -> c_int;
        inflateResetKeep(strm: *mut z_stream) -> c_int;
        inflateSetDictionary(strm: *mut z_stream, d: *const u8, n: c_uint) -> c_int;
        inflateGetHeader(strm: *mut z_stream, h: *mut gz_header) -> c_int;
        inflatePrime(strm: *mut z_stream, bits: c_int, value: c_int) -> c_int;
        inflateSync(strm: *mut z_stream) -> c_int;
        inflateSyncPoint(strm: *mut z_stream) -> c_int;
        inflateValidate(strm: *mut z_stream, check: c_int) -> c_int;
        inflateUndermine(strm: *mut z_stream, v: c_int) -> c_int;
        inflateCodesUsed(strm: *mut z_stream) -> c_ulong;
        inflateBackEnd(strm: *mut z_stream) -> c_int;
        deflate(strm: *mut z_stream, flush: c_int) -> c_int;
        deflateEnd(strm: *mut z_stream) -> c_int;
        deflateReset(strm: *mut z_stream) -> c_int;
        deflateResetKeep(strm: *mut z_stream) -> c_int;
        deflateCopy(dest: *mut z_stream, src: *mut z_stream) -> c_int;
        deflateParams(strm: *mut z_stream, level: c_int, strategy: c_int) -> c_int;
        deflateTune(strm: *mut z_stream, g: c_int, l: c_int, n: c_int, c: c_int) -> c_int;
        deflatePrime(strm: *mut z_stream, bits: c_int, value: c_int) -> c_int;
        deflatePending(strm: *mut z_stream, p: *mut c_uint, b: *mut c_int) -> c_int;
        deflateBound(strm: *mut z_stream, n: c_ulong) -> c_ulong;
        deflateSetDictionary(strm: *mut z_stream, d: *const u8, n: c_uint) -> c_int;
        deflateSetHeader(strm: *mut z_stream, h: *mut gz_header) -> c_int;
        compress2(dest: *mut u8, dl: *mut c_ulong, src: *const u8, sl: c_ulong, level: c_int) -> c_int;
        compress(dest: *mut u8, dl: *mut c_ulong, src: *const u8, sl: c_ulong) -> c_int;
        uncompress(dest: *mut u8, dl: *mut c_ulong, src: *const u8, sl: c_ulong) -> c_int;
        uncompress2(dest: *mut u8, dl: *mut c_ulong, src: *const u8, sl: *mut c_ulong) -> c_int;
    }
    unsafe fn compressBound(n: c_ulong) -> c_ulong {
        libz_rs_sys::compressBound(n)
    }
}

impl Z for Ng {
    const NAME: &'static str = "zlib-ng";
    const IS_NG: bool = true;
    unsafe fn inflateInit2(strm: *mut z_stream, wbits: c_int) -> c_int {
        unsafe { ngsys::inflateInit2_(strm, wbits, ngsys::zlibVersion(), SS) }
    }
    unsafe fn inflateBackInit(strm: *mut z_stream, wbits: c_int, window: *mut u8) -> c_int {
        unsafe { ngsys::inflateBackInit_(strm, wbits, window, ngsys::zlibVersion(), SS) }
    }
    unsafe fn deflateInit2(strm: *mut z_stream, level: c_int, method: c_int, wbits: c_int, mem: c_int, strategy: c_int) -> c_int {
        unsafe { ngsys::deflateInit2_(strm, level, method, wbits, mem, strategy, ngsys::zlibVersion(), SS) }
    }
    fwd! { ngsys;
        inflate(strm: *mut z_stream, flush: c_int) -> c_int;
        inflateEnd(strm: *mut z_stream) -> c_int;
        inflateReset(strm: *mut z_stream) -> c_int;
        inflateReset2(strm: *mut z_stream, wbits: c_int) -> c_int;
        inflateResetKeep(strm: *mut z_stream) -> c_int;
        inflateCopy(dest: *mut z_stream, src: *mut z_stream) -> c_int;
        inflateSetDictionary(strm: *mut z_stream, d: *const u8, n: c_uint) -> c_int;
        inflateGetDictionary(strm: *mut z_stream, d: *mut u8, n: *mut c_uint) -> c_int;
        inflateGetHeader(strm: *mut z_stream, h: *mut gz_header) -> c_int;
        inflatePrime(strm: *mut z_stream, bits: c_int, value: c_int) -> c_int;
        inflateSync(strm: *mut z_stream) -> c_int;
        inflateSyncPoint(strm: *mut z_stream) -> c_int;
        inflateMark(strm: *mut z_stream) -> c_long;
        inflateValidate(strm: *mut z_stream, check: c_int) -> c_int;
        inflateUndermine(strm: *mut z_stream, v: c_int) -> c_int;
        inflateCodesUsed(strm: *mut z_stream) -> c_ulong;
        inflateBack(strm: *mut z_stream, i: Option<InFunc>, id: *mut c_void, o: Option<OutFunc>, od: *mut c_void) -> c_int;
        inflateBackEnd(strm: *mut z_stream) -> c_int;
        deflate(strm: *mut z_stream, flush: c_int) -> c_int;
        deflateEnd(strm: *mut z_stream) -> c_int;
        deflateReset(strm: *mut z_stream) -> c_int;
        deflateResetKeep(strm: *mut z_stream) -> c_int;
        deflateCopy(dest: *mut z_stream, src: *mut z_stream) -> c_int;
        deflateParams(strm: *mut z_stream, level: c_int, strategy: c_int) -> c_int;
        deflateTune(strm: *mut z_stream, g: c_int, l: c_int, n: c_int, c: c_int) -> c_int;
        deflatePrime(strm: *mut z_stream, bits: c_int, value: c_int) -> c_int;
        deflatePending(strm: *mut z_stream, p: *mut c_uint, b: *mut c_int) -> c_int;
        deflateBound(strm: *mut z_stream, n: c_ulong) -> c_ulong;
        deflateSetDictionary(strm: *mut z_stream, d: *const u8, n: c_uint) -> c_int;
        deflateGetDictionary(strm: *mut z_stream, d: *mut u8, n: *mut c_uint) -> c_int;
        deflateSetHeader(strm: *mut z_stream, h: *mut gz_header) -> c_int;
        compress2(dest: *mut u8, dl: *mut c_ulong, src: *const u8, sl: c_ulong, level: c_int) -> c_int;
        compress(dest: *mut u8, dl: *mut c_ulong, src: *const u8, sl: c_ulong) -> c_int;
        compressBound(n: c_ulong) -> c_ulong;
        uncompress(dest: *mut u8, dl: *mut c_ulong, src: *const u8, sl: c_ulong) -> c_int;
        uncompress2(dest: *mut u8, dl: *mut c_ulong, src: *const u8, sl: *mut c_ulong) -> c_int;
    }
}

/// A zeroed stream as a C caller would prepare it (zalloc/zfree/opaque = NULL).
/// NOT `z_stream::default()`: that pre-installs zlib-rs's Rust-allocator callbacks, and a stream carrying
/// those must not be handed to zlib-ng (its zfree cannot release them: 200 KiB leaked per stream).
pub fn zs() -> z_stream {
    let mut s = z_stream::default();
    s.zalloc = None;
    s.zfree = None;
    s.opaque = core::ptr::null_mut();
    s
}

/// Like `zs()`, but zlib-ng gets a zero-filling allocator: zlib-ng does not initialise its window, and what it
/// hashes beyond the valid data (and therefore which matches it finds after a level change or a flush) depends on
/// whatever malloc returned. A reference must be a function of the calls: run it on zeroed memory, which is also what
/// a fresh zlib-rs stream has. zlib-rs keeps NULL callbacks (its own default allocator).
pub fn zs_for<A: Z>() -> z_stream {
    let mut s = zs();
    if A::NAME == "zlib-ng" {
        s.zalloc = Some(calloc_zalloc);
        s.zfree = Some(calloc_zfree);
    }
    s
}

unsafe extern "C" fn calloc_zalloc(_opaque: *mut core::ffi::c_void, items: core::ffi::c_uint, size: core::ffi::c_uint) -> *mut core::ffi::c_void {
    unsafe { libc::calloc(items as usize, size as usize) }
}

unsafe extern "C" fn calloc_zfree(_opaque: *mut core::ffi::c_void, p: *mut core::ffi::c_void) {
    unsafe { libc::free(p) }
}

pub const Z_OK: c_int = 0;
pub const Z_STREAM_END: c_int = 1;
pub const Z_NEED_DICT: c_int = 2;
pub const Z_ERRNO: c_int = -1;
pub const Z_STREAM_ERROR: c_int = -2;
pub const Z_DATA_ERROR: c_int = -3;
pub const Z_MEM_ERROR: c_int = -4;
pub const Z_BUF_ERROR: c_int = -5;
pub const Z_VERSION_ERROR: c_int = -6;

pub const Z_NO_FLUSH: c_int = 0;
pub const Z_PARTIAL_FLUSH: c_int = 1;
pub const Z_SYNC_FLUSH: c_int = 2;
pub const Z_FULL_FLUSH: c_int = 3;
pub const Z_FINISH: c_int = 4;
pub const Z_BLOCK: c_int = 5;
pub const Z_TREES: c_int = 6;

pub fn rc_name(rc: c_int) -> &'static str {
    match rc {
        0 => "Z_OK",
        1 => "Z_STREAM_END",
        2 => "Z_NEED_DICT",
        -1 => "Z_ERRNO",
        -2 => "Z_STREAM_ERROR",
        -3 => "Z_DATA_ERROR",
        -4 => "Z_MEM_ERROR",
        -5 => "Z_BUF_ERROR",
        -6 => "Z_VERSION_ERROR",
        _ => "?",
    }
}
