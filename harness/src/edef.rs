//! E-DEF: deflate session interpreter shared by C01 C05 C07 C11 C12 C13 C15 C20(write).
use crate::api::*;
use crate::einf::{Arenas, CallOut, InStage, RC_PANIC};
use crate::gen::*;
use crate::refimpl::rgen::GzFields;
use crate::refimpl::rgzh::Wrap;
use crate::tape::Tape;
use core::ffi::c_int;

#[derive(Clone, Debug)]
pub enum DefOp {
    Deflate { in_chunk: usize, out_chunk: usize, flush: c_int },
    Params { in_chunk: usize, out_chunk: usize, level: c_int, strategy: c_int },
    Tune { good: c_int, lazy: c_int, nice: c_int, chain: c_int },
    /// deflateCopy into a fresh z_stream, deflateEnd the original, continue the session on the copy
    /// (a no-op for the safe wrapper, which has no copy operation)
    CopySwap,
}

#[derive(Clone, Debug)]
pub struct DefPlan {
    pub cfg: DefCfg,
    pub data: Vec<u8>,
    pub dict: Option<Vec<u8>>,
    pub gz: Option<GzFields>,
    pub ops: Vec<DefOp>,
    /// repeat the op list cyclically
    pub cycles: usize,
    /// output sizes for the Finish loop (cycled); after 64 calls ample space is given
    pub finish_out: Vec<usize>,
    pub in_right: bool,
    pub out_right: bool,
    /// canonical application loop: every Deflate op supplies `in_chunk` NEW bytes and calls deflate
    /// with `out_chunk` bytes of space until the input is consumed (and a requested flush completed);
    /// deflateParams is retried with ample space on Z_BUF_ERROR. The resulting stream then depends only
    /// on the chunk boundaries, flush kinds and parameter changes, not on per-call consumption.
    pub canonical: bool,
}

impl DefPlan {
    pub fn describe_ops(&self) -> String {
        let v: Vec<String> = self
            .ops
            .iter()
            .take(14)
            .map(|o| match o {
                DefOp::Deflate { in_chunk, out_chunk, flush } => format!("D({},{},{})", in_chunk, out_chunk, flush),
                DefOp::Params { in_chunk, out_chunk, level, strategy } => format!("P({},{},L{},S{})", in_chunk, out_chunk, level, strategy),
                DefOp::Tune { good, lazy, nice, chain } => format!("T({},{},{},{})", good, lazy, nice, chain),
                DefOp::CopySwap => "Copy".to_string(),
            })
            .collect();
        format!("ops[{}x{}]={} finish_out={:?}", self.ops.len(), self.cycles, v.join(""), &self.finish_out[..self.finish_out.len().min(6)])
    }
}

pub const DCHUNKS: [usize; 36] = [0, 1, 1, 2, 3, 5, 6, 7, 8, 9, 16, 64, 100, 127, 128, 255, 256, 258, 262, 300, 507, 512, 513, 1000, 2048, 4096, 16384, 32768, 32773, 65535, 65536, 70000, 100000, 200000, 400000, 5];
pub const DEF_FLUSHES: [c_int; 10] = [Z_NO_FLUSH, Z_NO_FLUSH, Z_NO_FLUSH, Z_NO_FLUSH, Z_PARTIAL_FLUSH, Z_SYNC_FLUSH, Z_FULL_FLUSH, Z_BLOCK, Z_SYNC_FLUSH, Z_FULL_FLUSH];

pub struct PlanOpts {
    pub max_len: usize,
    pub allow_params: bool,
    pub allow_tune: bool,
    pub allow_dict: bool,
    pub allow_gz_header: bool,
    pub flush_heavy: bool,
    /// tune values restricted to the table domain (strict variant) or arbitrary
    pub tune_table_domain: bool,
    /// insert deflateCopy-and-continue ops (decoded after everything else of the plan)
    pub allow_copy: bool,
}

impl PlanOpts {
    pub fn standard() -> Self {
        PlanOpts { max_len: 300_000, allow_params: true, allow_tune: true, allow_dict: false, allow_gz_header: true, flush_heavy: false, tune_table_domain: true, allow_copy: false }
    }
}

/// deflateCopy-and-continue variant of a session, selected by the LAST tape byte (>= 0xE0, one case in eight) so
/// that the decoding of everything else - and of every saved regression tape - is unchanged: returns the tape
/// without its two suffix bytes and the position byte
pub fn split_copy_suffix(tape: &[u8]) -> (&[u8], Option<u8>) {
    if tape.len() >= 3 && tape[tape.len() - 1] >= 0xE0 {
        (&tape[..tape.len() - 2], Some(tape[tape.len() - 2]))
    } else {
        (tape, None)
    }
}

/// insert one or two CopySwap steps into a plan at positions derived from `b`
pub fn apply_copy(plan: &mut DefPlan, b: u8) {
    let at = (b as usize * (plan.ops.len() + 1)) >> 8;
    plan.ops.insert(at, DefOp::CopySwap);
    if b & 1 == 1 {
        plan.ops.push(DefOp::CopySwap);
    }
    plan.cycles = plan.cycles.min(40);
}

pub fn gen_dict(t: &mut Tape, w: usize, data: &[u8]) -> Vec<u8> {
    let lens = [0usize, 1, 2, 3, 10, 100, 258, w - 263, w - 262, w - 261, w - 1, w, w + 1, 2 * w, 40000, 100000];
    let n = t.pick(&lens);
    let mut d = Vec::with_capacity(n);
    let style = t.below(3);
    let seed = t.u16() as u64;
    let mut x = crate::tape::Xs::new(seed ^ 0xD1C7);
    while d.len() < n {
        match style {
            0 if !data.is_empty() => {
                // pieces of the data (so matches into the dictionary exist)
                let s = x.below(data.len());
                let l = (1 + x.below(64)).min(data.len() - s).min(n - d.len());
                d.extend_from_slice(&data[s..s + l]);
            }
            1 => d.push((x.next() >> 32) as u8),
            _ => d.push(b'a' + x.below(6) as u8),
        }
    }
    d
}

pub fn gen_plan(t: &mut Tape, po: &PlanOpts) -> DefPlan {
    let cfg = gen_cfg(t);
    let max_len = t.pick(&[100usize, 2000, 70_000, po.max_len]).min(po.max_len);
    let data = gen_data(t, cfg.eff_wbits(), max_len);
    let dict = if po.allow_dict && cfg.wrap != Wrap::Gzip && t.chance(100) { Some(gen_dict(t, 1 << cfg.eff_wbits(), &data)) } else { None };
    let gz = if po.allow_gz_header && cfg.wrap == Wrap::Gzip && t.chance(128) { Some(crate::refimpl::rgen::gen_gz_fields(t, t.remaining() % 3 == 0)) } else { None };
    let nops = match t.below(8) {
        0 => 0,
        1 => 1,
        _ => 1 + t.below(7),
    };
    let mut ops = Vec::new();
    for _ in 0..nops {
        let k = t.below(16);
        let in_chunk = t.pick(&DCHUNKS);
        let out_chunk = t.pick(&DCHUNKS);
        if k == 0 && po.allow_params {
            let level = t.pick(&[-1, 0, 1, 2, 3, 4, 5, 6, 7, 8, 9, 0, 1]);
            let strategy = t.pick(&[0, 0, 1, 2, 3, 4]);
            ops.push(DefOp::Params { in_chunk: if t.bool() { 0 } else { in_chunk }, out_chunk, level, strategy });
        } else if k == 1 && po.allow_tune {
            let v = |t: &mut Tape, hi: usize| -> c_int {
                if po.tune_table_domain {
                    // >= 4 like every row of the configuration table: with max_chain < 4 and a small good_match the
                    // chain counter (chain >> 2 == 0, then pre-decremented) wraps and zlib-ng walks stale chains for minutes
                    t.pick(&[4usize, 5, 6, 8, 16, 32, 128, 258, hi.min(1024)]).min(hi) as c_int
                } else {
                    t.pick(&[0i32, 1, 4, 258, 259, 4096, 65535, -1, i32::MAX, i32::MIN])
                }
            };
            ops.push(DefOp::Tune { good: v(t, 258), lazy: v(t, 258), nice: v(t, 258), chain: v(t, 8192) });
        } else {
            let flush = if po.flush_heavy { t.pick(&[Z_NO_FLUSH, Z_PARTIAL_FLUSH, Z_SYNC_FLUSH, Z_FULL_FLUSH, Z_SYNC_FLUSH, Z_FULL_FLUSH, Z_PARTIAL_FLUSH, Z_BLOCK]) } else { t.pick(&DEF_FLUSHES) };
            ops.push(DefOp::Deflate { in_chunk, out_chunk, flush });
        }
    }
    // long hash chains on big low-entropy inputs cost seconds per case: keep tuned sessions small
    let mut data = data;
    if ops.iter().any(|o| matches!(o, DefOp::Tune { .. })) && data.len() > 24_000 {
        data.truncate(24_000);
    }
    let cycles = t.pick(&[1usize, 1, 2, 5, 30, 300, 3000]);
    let finish_out = match t.below(6) {
        0 => vec![1],
        1 => vec![1 << 20],
        2 => vec![t.pick(&DCHUNKS).max(1)],
        3 => vec![1, 1, 1, 1, 1, 1, 1, 1, 1 << 20],
        4 => vec![0, 5, 0, 6, 1 << 20],
        _ => vec![t.pick(&DCHUNKS).max(1), t.pick(&DCHUNKS).max(1)],
    };
    let mut plan = DefPlan { cfg, data, dict, gz, ops, cycles, finish_out, in_right: !t.chance(48), out_right: !t.chance(64), canonical: false };
    if po.allow_copy && t.chance(110) {
        for _ in 0..1 + t.below(2) {
            let at = t.below(plan.ops.len() + 1);
            plan.ops.insert(at, DefOp::CopySwap);
        }
        plan.cycles = plan.cycles.min(40);
    }
    plan
}

#[derive(Clone, Debug)]
pub struct DefCall {
    /// 0 deflate, 1 params, 2 tune, 3 finish-loop deflate
    pub kind: u8,
    pub flush: c_int,
    pub avail_in: u32,
    pub avail_out: u32,
    pub rc: c_int,
    pub din: u32,
    pub dout: u32,
    pub total_in: u64,
    pub total_out: u64,
    pub adler: u64,
    pub data_type: c_int,
}

#[derive(Clone, Debug)]
pub struct FlushPoint {
    pub flush: c_int,
    pub out_len: usize,
    pub in_len: usize,
    /// completed by a later call than the one that first requested it
    pub delayed: bool,
    pub call_index: usize,
    pub rc: c_int,
}

#[derive(Clone, Debug)]
pub struct ParamSwitch {
    pub at_in: usize,
    pub level: c_int,
    pub strategy: c_int,
    pub rc: c_int,
}

pub struct DefRun {
    pub init_rc: c_int,
    pub out: Vec<u8>,
    pub calls: Vec<DefCall>,
    pub flush_points: Vec<FlushPoint>,
    pub switches: Vec<ParamSwitch>,
    pub finished: bool,
    pub last_rc: c_int,
    pub total_in: u64,
    pub total_out: u64,
    pub violations: Vec<(&'static str, String, String)>,
    /// level / strategy in effect when the first output byte was produced (header time)
    pub header_level: c_int,
    pub header_strategy: c_int,
    pub dict_rc: Option<c_int>,
    pub dict_adler: u64,
    pub header_rc: Option<c_int>,
    pub finish_calls: usize,
    pub one_byte_stretch: usize,
    pub ncalls: usize,
    pub final_adler: u64,
    pub bound_before: u64,
}

pub trait DefBack: Sized {
    const LABEL: &'static str;
    const IS_WRAPPER: bool;
    fn init(cfg: &DefCfg) -> Result<Self, c_int>;
    fn call(&mut self, ip: *const u8, ic: usize, op: *mut u8, oc: usize, flush: c_int) -> CallOut;
    fn params(&mut self, ip: *const u8, ic: usize, op: *mut u8, oc: usize, level: c_int, strategy: c_int) -> CallOut;
    fn tune(&mut self, g: c_int, l: c_int, n: c_int, c: c_int) -> c_int;
    fn set_dict(&mut self, d: *const u8, n: usize) -> (c_int, u64);
    fn set_header(&mut self, h: *mut gz_header) -> c_int;
    fn bound(&mut self, n: u64) -> u64;
    fn copy_swap(&mut self) -> c_int {
        Z_OK
    }
    fn end(self) -> c_int;
}

pub struct CDef<A: Z> {
    pub strm: Box<z_stream>,
    _a: core::marker::PhantomData<A>,
}

fn callout(s: &z_stream, rc: c_int, ip: *const u8, op: *mut u8) -> CallOut {
    CallOut {
        rc,
        din_ptr: (s.next_in as isize).wrapping_sub(ip as isize),
        dout_ptr: (s.next_out as isize).wrapping_sub(op as isize),
        avail_in: s.avail_in,
        avail_out: s.avail_out,
        total_in: s.total_in as u64,
        total_out: s.total_out as u64,
        adler: s.adler as u64,
        data_type: s.data_type,
    }
}

impl<A: Z> DefBack for CDef<A> {
    const LABEL: &'static str = A::NAME;
    const IS_WRAPPER: bool = false;
    fn init(cfg: &DefCfg) -> Result<Self, c_int> {
        let mut strm = Box::new(zs_for::<A>());
        crate::guard::install_current(&mut strm);
        let rc = unsafe { A::deflateInit2(&mut *strm, cfg.level, 8, cfg.window_bits_arg(), cfg.mem_level, cfg.strategy) };
        if rc != Z_OK {
            return Err(rc);
        }
        Ok(CDef { strm, _a: core::marker::PhantomData })
    }
    fn call(&mut self, ip: *const u8, ic: usize, op: *mut u8, oc: usize, flush: c_int) -> CallOut {
        let s = &mut *self.strm;
        s.next_in = ip;
        s.avail_in = ic as u32;
        s.next_out = op;
        s.avail_out = oc as u32;
        let rc = unsafe { A::deflate(s, flush) };
        callout(s, rc, ip, op)
    }
    fn params(&mut self, ip: *const u8, ic: usize, op: *mut u8, oc: usize, level: c_int, strategy: c_int) -> CallOut {
        let s = &mut *self.strm;
        s.next_in = ip;
        s.avail_in = ic as u32;
        s.next_out = op;
        s.avail_out = oc as u32;
        let rc = unsafe { A::deflateParams(s, level, strategy) };
        callout(s, rc, ip, op)
    }
    fn tune(&mut self, g: c_int, l: c_int, n: c_int, c: c_int) -> c_int {
        unsafe { A::deflateTune(&mut *self.strm, g, l, n, c) }
    }
    fn set_dict(&mut self, d: *const u8, n: usize) -> (c_int, u64) {
        let rc = unsafe { A::deflateSetDictionary(&mut *self.strm, d, n as u32) };
        (rc, self.strm.adler as u64)
    }
    fn set_header(&mut self, h: *mut gz_header) -> c_int {
        unsafe { A::deflateSetHeader(&mut *self.strm, h) }
    }
    fn bound(&mut self, n: u64) -> u64 {
        unsafe { A::deflateBound(&mut *self.strm, n as _) as u64 }
    }
    fn copy_swap(&mut self) -> c_int {
        let mut dest = Box::new(zs_for::<A>());
        let rc = unsafe { A::deflateCopy(&mut *dest, &mut *self.strm) };
        if rc != Z_OK {
            return rc;
        }
        let erc = unsafe { A::deflateEnd(&mut *self.strm) };
        self.strm = dest;
        // ending a stream in mid-session reports Z_DATA_ERROR (data discarded); both are documented
        if erc == Z_OK || erc == Z_DATA_ERROR { Z_OK } else { erc }
    }
    fn end(mut self) -> c_int {
        unsafe { A::deflateEnd(&mut *self.strm) }
    }
}

pub struct RustDef {
    pub d: zlib_rs::Deflate,
}

fn dflush(f: c_int) -> zlib_rs::DeflateFlush {
    match f {
        Z_PARTIAL_FLUSH => zlib_rs::DeflateFlush::PartialFlush,
        Z_SYNC_FLUSH => zlib_rs::DeflateFlush::SyncFlush,
        Z_FULL_FLUSH => zlib_rs::DeflateFlush::FullFlush,
        Z_FINISH => zlib_rs::DeflateFlush::Finish,
        Z_BLOCK => zlib_rs::DeflateFlush::Block,
        _ => zlib_rs::DeflateFlush::NoFlush,
    }
}

fn strategy_of(s: c_int) -> zlib_rs::Strategy {
    match s {
        1 => zlib_rs::Strategy::Filtered,
        2 => zlib_rs::Strategy::HuffmanOnly,
        3 => zlib_rs::Strategy::Rle,
        4 => zlib_rs::Strategy::Fixed,
        _ => zlib_rs::Strategy::Default,
    }
}

pub fn rust_config(cfg: &DefCfg) -> zlib_rs::DeflateConfig {
    zlib_rs::DeflateConfig { level: cfg.level, method: zlib_rs::Method::Deflated, window_bits: cfg.window_bits_arg(), mem_level: cfg.mem_level, strategy: strategy_of(cfg.strategy) }
}

impl DefBack for RustDef {
    const LABEL: &'static str = "zlib_rs::Deflate";
    const IS_WRAPPER: bool = true;
    fn init(cfg: &DefCfg) -> Result<Self, c_int> {
        let c = rust_config(cfg);
        match std::panic::catch_unwind(|| zlib_rs::Deflate::new_with_config(c)) {
            Ok(d) => Ok(RustDef { d }),
            Err(_) => Err(RC_PANIC),
        }
    }
    fn call(&mut self, ip: *const u8, ic: usize, op: *mut u8, oc: usize, flush: c_int) -> CallOut {
        let input = unsafe { core::slice::from_raw_parts(ip, ic) };
        let output = unsafe { core::slice::from_raw_parts_mut(op, oc) };
        let (ti, to) = (self.d.total_in(), self.d.total_out());
        let d = &mut self.d;
        let r = std::panic::catch_unwind(std::panic::AssertUnwindSafe(|| d.compress(input, output, dflush(flush))));
        let rc = match r {
            Err(_) => RC_PANIC,
            Ok(Ok(zlib_rs::Status::Ok)) => Z_OK,
            Ok(Ok(zlib_rs::Status::BufError)) => Z_BUF_ERROR,
            Ok(Ok(zlib_rs::Status::StreamEnd)) => Z_STREAM_END,
            Ok(Err(zlib_rs::DeflateError::StreamError)) => Z_STREAM_ERROR,
            Ok(Err(zlib_rs::DeflateError::DataError)) => Z_DATA_ERROR,
            Ok(Err(zlib_rs::DeflateError::MemError)) => Z_MEM_ERROR,
        };
        let din = (self.d.total_in() - ti) as isize;
        let dout = (self.d.total_out() - to) as isize;
        CallOut { rc, din_ptr: din, dout_ptr: dout, avail_in: (ic as isize - din).max(0) as u32, avail_out: (oc as isize - dout).max(0) as u32, total_in: self.d.total_in(), total_out: self.d.total_out(), adler: 0, data_type: 0 }
    }
    fn params(&mut self, _ip: *const u8, ic: usize, _op: *mut u8, oc: usize, level: c_int, _strategy: c_int) -> CallOut {
        let d = &mut self.d;
        let r = std::panic::catch_unwind(std::panic::AssertUnwindSafe(|| d.set_level(level)));
        let rc = match r {
            Err(_) => RC_PANIC,
            Ok(Ok(zlib_rs::Status::Ok)) => Z_OK,
            Ok(Ok(_)) => Z_BUF_ERROR,
            Ok(Err(_)) => Z_STREAM_ERROR,
        };
        CallOut { rc, din_ptr: 0, dout_ptr: 0, avail_in: ic as u32, avail_out: oc as u32, total_in: self.d.total_in(), total_out: self.d.total_out(), adler: 0, data_type: 0 }
    }
    fn tune(&mut self, _g: c_int, _l: c_int, _n: c_int, _c: c_int) -> c_int {
        Z_OK
    }
    fn set_dict(&mut self, d: *const u8, n: usize) -> (c_int, u64) {
        let dict = unsafe { core::slice::from_raw_parts(d, n) };
        match self.d.set_dictionary(dict) {
            Ok(a) => (Z_OK, a as u64),
            Err(_) => (Z_STREAM_ERROR, 0),
        }
    }
    fn set_header(&mut self, _h: *mut gz_header) -> c_int {
        Z_STREAM_ERROR
    }
    fn bound(&mut self, _n: u64) -> u64 {
        0
    }
    fn end(self) -> c_int {
        Z_OK
    }
}

/// C strings / buffers for a gz_header that must outlive the stream
pub struct GzHold {
    pub head: Box<gz_header>,
    _extra: Option<Vec<u8>>,
    _name: Option<Vec<u8>>,
    _comment: Option<Vec<u8>>,
}

pub fn make_gz_header(f: &GzFields) -> GzHold {
    let mut extra = f.extra.clone();
    let mut name = f.name.clone().map(|mut v| {
        v.push(0);
        v
    });
    let mut comment = f.comment.clone().map(|mut v| {
        v.push(0);
        v
    });
    let mut h = Box::new(gz_header::default());
    h.text = if f.text_val != 0 || !f.text { f.text_val } else { 1 };
    h.time = f.mtime as _;
    h.os = f.os as i32;
    h.hcrc = if f.hcrc_val != 0 || !f.hcrc { f.hcrc_val } else { 1 };
    if let Some(e) = extra.as_mut() {
        h.extra = e.as_mut_ptr();
        h.extra_len = e.len() as u32;
    }
    if let Some(n) = name.as_mut() {
        h.name = n.as_mut_ptr();
    }
    if let Some(c) = comment.as_mut() {
        h.comment = c.as_mut_ptr();
    }
    GzHold { head: h, _extra: extra, _name: name, _comment: comment }
}

fn viol(run: &mut DefRun, tag: &'static str, sig: &str, msg: String) {
    if run.violations.len() < 8 {
        let msg = format!("call {}: {}", run.ncalls, msg);
        run.violations.push((tag, sig.to_string(), msg));
    }
}

pub fn run_deflate<A: Z>(plan: &DefPlan, ar: &Arenas) -> DefRun {
    run_deflate_with::<CDef<A>>(plan, ar)
}

pub fn run_deflate_with<B: DefBack>(plan: &DefPlan, ar: &Arenas) -> DefRun {
    let mut run = DefRun {
        init_rc: Z_OK,
        out: Vec::new(),
        calls: Vec::new(),
        flush_points: Vec::new(),
        switches: Vec::new(),
        finished: false,
        last_rc: 0,
        total_in: 0,
        total_out: 0,
        violations: Vec::new(),
        header_level: plan.cfg.level,
        header_strategy: plan.cfg.strategy,
        dict_rc: None,
        dict_adler: 0,
        header_rc: None,
        finish_calls: 0,
        one_byte_stretch: 0,
        ncalls: 0,
        final_adler: 0,
        bound_before: 0,
    };
    let mut be = match B::init(&plan.cfg) {
        Ok(b) => b,
        Err(rc) => {
            run.init_rc = rc;
            return run;
        }
    };
    let mut gzhold: Option<GzHold> = None;
    if let Some(f) = &plan.gz {
        if !B::IS_WRAPPER {
            let mut h = make_gz_header(f);
            let rc = be.set_header(&mut *h.head);
            run.header_rc = Some(rc);
            gzhold = Some(h);
        }
    }
    let mut dict_counted = 0u64;
    if let Some(d) = &plan.dict {
        let dp = ar.dict.put_right(&d[..d.len().min(ar.dict.cap)]);
        let (rc, ad) = be.set_dict(dp, d.len().min(ar.dict.cap));
        run.dict_rc = Some(rc);
        run.dict_adler = ad;
        if rc == Z_OK && !B::IS_WRAPPER {
            // zlib counts the dictionary bytes as input (C15)
            dict_counted = 0; // measured below from total_in of the first call
        }
    }
    let _ = dict_counted;
    run.bound_before = be.bound(plan.data.len() as u64);
    let stage = InStage::new(ar, &plan.data, plan.in_right);
    let data = &plan.data[..stage.len()];
    let mut pos = 0usize;
    let mut cur_level = plan.cfg.level;
    let mut cur_strategy = plan.cfg.strategy;
    let mut header_seen = false;
    let mut pending_flush: Option<(c_int, usize)> = None; // flush that must be repeated until avail_out > 0
    let mut prev_ti: Option<u64> = None;
    let mut prev_to: u64 = 0;
    let mut one_run = 0usize;
    ar.out.fill(0x3C);
    let total_ops = plan.ops.len() * plan.cycles;
    let mut opi = 0usize;
    let max_calls = 600_000usize;
    // helper closure state is threaded manually (needs &mut run and &mut be)
    macro_rules! do_call {
        ($kind:expr, $ic:expr, $oc:expr, $flush:expr, $level:expr, $strategy:expr) => {{
            let ic: usize = ($ic).min(data.len() - pos);
            let oc: usize = ($oc).min(ar.out.cap - 64);
            let ip = stage.chunk(ar, data, pos, ic);
            let op = if plan.out_right { ar.out.right(oc) } else { unsafe { ar.out.left(oc).add(64) } };
            unsafe {
                core::ptr::write_bytes(op.sub(32), 0xC7, 32);
                if !plan.out_right {
                    core::ptr::write_bytes(op.add(oc), 0xC7, 32);
                }
            }
            let co = if $kind == 1 { be.params(ip, ic, op, oc, $level, $strategy) } else { be.call(ip, ic, op, oc, $flush) };
            run.ncalls += 1;
            run.last_rc = co.rc;
            let din_av = (ic as u32).wrapping_sub(co.avail_in);
            let dout_av = (oc as u32).wrapping_sub(co.avail_out);
            let mut broken = false;
            if co.rc == RC_PANIC {
                viol(&mut run, "C06", "deflate/panic", format!("{} panicked", B::LABEL));
                broken = true;
            } else if co.avail_in as usize > ic || co.avail_out as usize > oc || co.din_ptr != din_av as isize || co.dout_ptr != dout_av as isize {
                viol(&mut run, "C15", "deflate/cursor-mismatch", format!("avail_in {}->{} next_in moved {}; avail_out {}->{} next_out moved {} (rc {})", ic, co.avail_in, co.din_ptr, oc, co.avail_out, co.dout_ptr, co.rc));
                broken = true;
            }
            if !broken {
                let (din, dout) = (din_av, dout_av);
                match prev_ti {
                    None => {
                        // first call: total_in may include the dictionary length on the C API
                        let dl = plan.dict.as_ref().map_or(0, |d| d.len().min(1usize << plan.cfg.eff_wbits()) as u64);
                        let base = co.total_in.wrapping_sub(din as u64);
                        let ok = base == 0 || (!B::IS_WRAPPER && run.dict_rc == Some(Z_OK) && base == dl);
                        if !ok {
                            viol(&mut run, "C15", "deflate/total_in-base", format!("total_in after the first call is {} with {} bytes consumed (dictionary {} bytes)", co.total_in, din, dl));
                        }
                        if co.total_out != dout as u64 {
                            viol(&mut run, "C15", "deflate/totals", format!("total_out {} after the first call that produced {}", co.total_out, dout));
                        }
                    }
                    Some(pti) => {
                        if co.total_in != pti + din as u64 || co.total_out != prev_to + dout as u64 {
                            viol(&mut run, "C15", "deflate/totals", format!("total_in {}->{} but consumed {}; total_out {}->{} but produced {}", pti, co.total_in, din, prev_to, co.total_out, dout));
                        }
                    }
                }
                prev_ti = Some(co.total_in);
                prev_to = co.total_out;
                unsafe {
                    let before = core::slice::from_raw_parts(op.sub(32), 32);
                    if before.iter().any(|&b| b != 0xC7) {
                        viol(&mut run, "C06", "deflate/write-before-next_out", "bytes before next_out were modified".to_string());
                    }
                    if !plan.out_right {
                        let after = core::slice::from_raw_parts(op.add(oc), 32);
                        if after.iter().any(|&b| b != 0xC7) {
                            viol(&mut run, "C06", "deflate/write-past-avail_out", "bytes past next_out+avail_out were modified".to_string());
                        }
                    }
                }
                if co.rc == Z_BUF_ERROR && (din != 0 || dout != 0) && $kind != 1 && $flush != Z_FINISH {
                    viol(&mut run, "C15", "deflate/buf-error-with-progress", format!("Z_BUF_ERROR although {} bytes consumed / {} produced (flush {})", din, dout, $flush));
                }
                if !header_seen && dout > 0 {
                    header_seen = true;
                    // parameters in effect when the header went out: params switches take effect after
                    // the internal flush, so the values before this call apply unless nothing was out yet
                    run.header_level = if $kind == 1 && co.rc == Z_OK && run.calls.iter().all(|c| c.kind != 0 && c.kind != 3) { $level } else { cur_level };
                    run.header_strategy = if $kind == 1 && co.rc == Z_OK && run.calls.iter().all(|c| c.kind != 0 && c.kind != 3) { $strategy } else { cur_strategy };
                }
                if dout == 1 && oc == 1 {
                    one_run += 1;
                    if one_run > run.one_byte_stretch {
                        run.one_byte_stretch = one_run;
                    }
                } else if dout > 0 {
                    one_run = 0;
                }
                run.out.extend_from_slice(unsafe { core::slice::from_raw_parts(op, dout as usize) });
                pos += din as usize;
                if run.calls.len() < 20_000 {
                    run.calls.push(DefCall { kind: $kind, flush: $flush, avail_in: ic as u32, avail_out: oc as u32, rc: co.rc, din, dout, total_in: co.total_in, total_out: co.total_out, adler: co.adler, data_type: co.data_type });
                }
            }
            (co, broken)
        }};
    }
    'ops: while opi < total_ops && run.ncalls < max_calls {
        let op = plan.ops[opi % plan.ops.len()].clone();
        opi += 1;
        if plan.canonical {
            match op {
                DefOp::Deflate { in_chunk, out_chunk, flush } => {
                    let chunk_end = (pos + in_chunk).min(data.len());
                    // keep the number of calls per session bounded (tiny chunks only on small inputs)
                    let mut oc = out_chunk.max(1).max(data.len() / 4096);
                    let mut guard = 0usize;
                    loop {
                        let (co, broken) = do_call!(0u8, chunk_end - pos, oc, flush, 0, 0);
                        if broken {
                            break 'ops;
                        }
                        match co.rc {
                            Z_OK | Z_BUF_ERROR => {}
                            _ => {
                                viol(&mut run, "C06", "deflate/status", format!("deflate(flush {}) returned {} in a legal session", flush, rc_name(co.rc)));
                                break 'ops;
                            }
                        }
                        guard += 1;
                        if co.avail_in == 0 && (flush == Z_NO_FLUSH || co.avail_out > 0) {
                            if matches!(flush, Z_PARTIAL_FLUSH | Z_SYNC_FLUSH | Z_FULL_FLUSH) {
                                run.flush_points.push(FlushPoint { flush, out_len: run.out.len(), in_len: pos, delayed: guard > 1, call_index: run.ncalls, rc: co.rc });
                            }
                            break;
                        }
                        if co.avail_in == 0 {
                            // only the completion of the flush is outstanding: zlib documents that a flush
                            // marker is repeated when the previous call ended with avail_out == 0 exactly
                            // after it, so the application must come back with more room
                            oc = (oc * 2).max(64).min(1 << 20);
                        }
                        if guard > 2_000_000 || run.ncalls >= max_calls {
                            viol(&mut run, "C06", "deflate/no-progress", "canonical loop did not consume its input chunk".to_string());
                            break 'ops;
                        }
                    }
                }
                DefOp::Params { in_chunk: _, out_chunk, level, strategy } => {
                    let mut oc = out_chunk.max(1);
                    let mut tries = 0;
                    loop {
                        let (co, broken) = do_call!(1u8, 0usize, oc, Z_BLOCK, level, strategy);
                        if broken {
                            break 'ops;
                        }
                        run.switches.push(ParamSwitch { at_in: pos, level, strategy, rc: co.rc });
                        match co.rc {
                            Z_OK => {
                                cur_level = level;
                                cur_strategy = if B::IS_WRAPPER { 0 } else { strategy };
                                break;
                            }
                            Z_BUF_ERROR => {
                                oc = 1 << 20;
                                tries += 1;
                                if tries > 8 {
                                    viol(&mut run, "C06", "deflateParams/buf-error-forever", "deflateParams keeps returning Z_BUF_ERROR with ample output space".to_string());
                                    break 'ops;
                                }
                            }
                            Z_STREAM_ERROR if B::IS_WRAPPER => break,
                            _ => {
                                viol(&mut run, "C06", "deflateParams/status", format!("deflateParams({}, {}) returned {} in a legal session", level, strategy, rc_name(co.rc)));
                                break 'ops;
                            }
                        }
                    }
                }
                DefOp::Tune { good, lazy, nice, chain } => {
                    if !B::IS_WRAPPER {
                        let rc = be.tune(good, lazy, nice, chain);
                        if rc != Z_OK {
                            viol(&mut run, "C06", "deflateTune/status", format!("deflateTune returned {}", rc_name(rc)));
                            break 'ops;
                        }
                    }
                }
                DefOp::CopySwap => {
                    let rc = be.copy_swap();
                    if rc != Z_OK {
                        viol(&mut run, "C06", "deflateCopy/status", format!("deflateCopy of a valid stream (then deflateEnd of the original) returned {}", rc_name(rc)));
                        break 'ops;
                    }
                }
            }
            continue 'ops;
        }
        match op {
            DefOp::Deflate { in_chunk, out_chunk, flush } => {
                // a pending flush must be repeated (same flush value) until it completes
                let (flush, delayed) = match pending_flush {
                    Some((f, _)) => (f, true),
                    None => (flush, false),
                };
                let (co, broken) = do_call!(0u8, in_chunk, out_chunk, flush, 0, 0);
                if broken {
                    break 'ops;
                }
                match co.rc {
                    Z_OK | Z_BUF_ERROR => {}
                    _ => {
                        viol(&mut run, "C06", "deflate/status", format!("deflate(flush {}) returned {} in a legal session", flush, rc_name(co.rc)));
                        break 'ops;
                    }
                }
                if flush != Z_NO_FLUSH {
                    if co.avail_out == 0 {
                        if pending_flush.is_none() {
                            pending_flush = Some((flush, run.ncalls));
                        }
                    } else {
                        // the flush is complete (zlib manual): every input byte supplied so far must be decodable
                        if matches!(flush, Z_PARTIAL_FLUSH | Z_SYNC_FLUSH | Z_FULL_FLUSH) {
                            run.flush_points.push(FlushPoint { flush, out_len: run.out.len(), in_len: pos + co.avail_in as usize, delayed: delayed, call_index: run.ncalls, rc: co.rc });
                        }
                        pending_flush = None;
                    }
                }
            }
            DefOp::Params { in_chunk, out_chunk, level, strategy } => {
                if pending_flush.is_some() {
                    continue;
                }
                let (co, broken) = do_call!(1u8, in_chunk, out_chunk, Z_BLOCK, level, strategy);
                if broken {
                    break 'ops;
                }
                run.switches.push(ParamSwitch { at_in: pos, level, strategy, rc: co.rc });
                match co.rc {
                    Z_OK => {
                        if !B::IS_WRAPPER {
                            cur_level = level;
                            cur_strategy = strategy;
                        } else {
                            cur_level = level;
                            cur_strategy = 0;
                        }
                    }
                    Z_BUF_ERROR => {}
                    Z_STREAM_ERROR if B::IS_WRAPPER => {}
                    _ => {
                        viol(&mut run, "C06", "deflateParams/status", format!("deflateParams({}, {}) returned {} in a legal session", level, strategy, rc_name(co.rc)));
                        break 'ops;
                    }
                }
            }
            DefOp::Tune { good, lazy, nice, chain } => {
                if B::IS_WRAPPER {
                    continue;
                }
                let rc = be.tune(good, lazy, nice, chain);
                if rc != Z_OK {
                    viol(&mut run, "C06", "deflateTune/status", format!("deflateTune returned {}", rc_name(rc)));
                    break 'ops;
                }
            }
            DefOp::CopySwap => {
                let rc = be.copy_swap();
                if rc != Z_OK {
                    viol(&mut run, "C06", "deflateCopy/status", format!("deflateCopy of a valid stream (then deflateEnd of the original) returned {}", rc_name(rc)));
                    break 'ops;
                }
            }
        }
    }
    // Finish loop
    if run.violations.iter().all(|v| v.0 == "C15") {
        let mut k = 0usize;
        loop {
            if k > 900_000 {
                viol(&mut run, "C06", "finish/no-end", "Z_FINISH loop did not reach Z_STREAM_END within 900000 calls".to_string());
                break;
            }
            let oc = if k > 600_000 { 1 << 20 } else { plan.finish_out[k % plan.finish_out.len()] };
            k += 1;
            let before_pos = pos;
            let (co, broken) = do_call!(3u8, usize::MAX, oc, Z_FINISH, 0, 0);
            run.finish_calls += 1;
            if broken {
                break;
            }
            match co.rc {
                Z_STREAM_END => {
                    run.finished = true;
                    break;
                }
                Z_OK | Z_BUF_ERROR => {
                    let ocv = oc.min(ar.out.cap - 64) as u32;
                    let dout = ocv - co.avail_out;
                    if ocv > 0 && dout == 0 && pos == before_pos {
                        viol(&mut run, "C06", "finish/no-progress", format!("deflate(Z_FINISH) with {} bytes of output space moved nothing and returned {}", oc, rc_name(co.rc)));
                        break;
                    }
                }
                _ => {
                    viol(&mut run, "C06", "finish/status", format!("deflate(Z_FINISH) returned {}", rc_name(co.rc)));
                    break;
                }
            }
        }
    }
    if let Some(t) = prev_ti {
        run.total_in = t;
    }
    run.total_out = prev_to;
    if let Some(c) = run.calls.last() {
        run.final_adler = c.adler;
    }
    let erc = be.end();
    if run.finished && erc != Z_OK {
        viol(&mut run, "C06", "deflateEnd/status", format!("deflateEnd after Z_STREAM_END returned {}", rc_name(erc)));
    }
    drop(gzhold);
    run
}
