//! E-INF: inflate session interpreter shared by C02 C03 C04 C08 C15 C20(read).
use crate::api::*;
use crate::guard::Arena;
use crate::tape::Tape;
use core::ffi::c_int;

pub const ARENA_CAP: usize = 1 << 21;

pub struct Arenas {
    pub inp: Arena,
    pub inp_small: Arena,
    pub out: Arena,
    pub aux: [Arena; 3],
    pub dict: Arena,
}

impl Arenas {
    pub fn new() -> Arenas {
        Arenas { inp: Arena::new(ARENA_CAP), inp_small: Arena::new(1 << 16), out: Arena::new(ARENA_CAP), aux: [Arena::new(1 << 17), Arena::new(1 << 17), Arena::new(1 << 17)], dict: Arena::new(1 << 18) }
    }
}

/// Input staging: the whole input is placed once (its end at a guard page); small chunks and
/// chunks that are not at the end are copied to a second arena so that they too end at a guard.
pub struct InStage {
    full: *const u8,
    len: usize,
    right: bool,
}

pub const SMALL_CHUNK: usize = 4096;

impl InStage {
    pub fn new(ar: &Arenas, data: &[u8], right: bool) -> InStage {
        let n = data.len().min(ar.inp.cap);
        let full = ar.inp.put(&data[..n], right);
        InStage { full, len: n, right }
    }
    pub fn len(&self) -> usize {
        self.len
    }
    /// pointer to data[pos..pos+ic]
    pub fn chunk(&self, ar: &Arenas, data: &[u8], pos: usize, ic: usize) -> *const u8 {
        debug_assert!(pos + ic <= self.len);
        if !self.right || pos + ic == self.len || ic > SMALL_CHUNK {
            unsafe { self.full.add(pos) }
        } else {
            ar.inp_small.put_right(&data[pos..pos + ic])
        }
    }
}

thread_local! {
    pub static ARENAS: Arenas = Arenas::new();
    pub static ARENAS2: Arenas = Arenas::new();
}

#[derive(Clone, Copy, Debug)]
pub struct InfStep {
    pub in_chunk: usize,
    pub out_chunk: usize,
    pub flush: c_int,
}

#[derive(Clone, Debug)]
pub struct InfSchedule {
    pub steps: Vec<InfStep>,
    /// repeat the step list cyclically this many times before "deliver everything"
    pub cycles: usize,
    pub in_right: bool,
    pub out_right: bool,
    /// final phase chunk sizes
    pub tail_in: usize,
    pub tail_out: usize,
}

impl InfSchedule {
    pub fn one_shot() -> InfSchedule {
        InfSchedule { steps: vec![], cycles: 0, in_right: true, out_right: true, tail_in: usize::MAX, tail_out: 1 << 20 }
    }
    pub fn describe(&self) -> String {
        let s: Vec<String> = self.steps.iter().take(12).map(|s| format!("({},{},{})", s.in_chunk, s.out_chunk, s.flush)).collect();
        format!("steps[{}x{}]={} tail=({},{}) align(in_right={},out_right={})", self.steps.len(), self.cycles, s.join(""), if self.tail_in == usize::MAX { -1 } else { self.tail_in as i64 }, self.tail_out, self.in_right, self.out_right)
    }
}

pub const CHUNKS: [usize; 40] = [
    0, 1, 1, 1, 2, 3, 4, 5, 7, 8, 13, 14, 15, 16, 17, 31, 32, 33, 63, 64, 100, 257, 258, 259, 260, 261, 262, 300, 511, 512, 1000, 4096, 8191, 32767, 32768, 32769, 40000, 65535, 65536, 100000,
];
pub const INF_FLUSHES: [c_int; 8] = [Z_NO_FLUSH, Z_NO_FLUSH, Z_NO_FLUSH, Z_SYNC_FLUSH, Z_FINISH, Z_BLOCK, Z_TREES, Z_NO_FLUSH];

pub fn gen_inf_schedule(t: &mut Tape) -> InfSchedule {
    let style = t.below(8);
    let n = match style {
        0 => 0,
        1 => 1,
        _ => 1 + t.below(6),
    };
    let mut steps = Vec::new();
    for _ in 0..n {
        let in_chunk = t.pick(&CHUNKS);
        let out_chunk = t.pick(&CHUNKS);
        let flush = t.pick(&INF_FLUSHES);
        steps.push(InfStep { in_chunk, out_chunk, flush });
    }
    let cycles = match t.below(6) {
        0 => 1,
        1 => 2,
        2 => 10,
        3 => 100,
        4 => 1000,
        _ => 5000,
    };
    let tail_in = t.pick(&[usize::MAX, usize::MAX, 1, 7, 16, 1000, 40000]);
    let tail_out = t.pick(&[1usize << 20, 1 << 20, 1, 3, 260, 32768, 70000]);
    InfSchedule { steps, cycles, in_right: !t.chance(48), out_right: !t.chance(64), tail_in, tail_out }
}

#[derive(Clone, Debug)]
pub struct CallRec {
    pub flush: c_int,
    pub avail_in: u32,
    pub avail_out: u32,
    pub rc: c_int,
    pub din: u32,
    pub dout: u32,
    pub data_type: c_int,
    pub adler: u64,
}

#[derive(Clone, Copy, Debug, PartialEq, Eq)]
pub enum Status {
    StreamEnd,
    DataError,
    NeedDict,
    NeedsMore,
    MemError,
    StreamError,
    CallLimit,
    OutLimit,
}

pub struct Capture<'a> {
    pub extra_max: Option<u32>,
    pub name_max: Option<u32>,
    pub comm_max: Option<u32>,
    pub arenas: &'a [Arena; 3],
}

pub struct HeadResult {
    pub head: gz_header,
    pub extra: Vec<u8>,
    pub name: Vec<u8>,
    pub comment: Vec<u8>,
    /// `done` value observed after each call
    pub done_trace: Vec<(u64, i32)>,
    pub get_header_rc: c_int,
    pub extra_ptr_set: bool,
    pub name_ptr_set: bool,
    pub comm_ptr_set: bool,
}

pub struct InfOpts<'a> {
    pub wbits: c_int,
    pub max_out: usize,
    pub max_calls: usize,
    pub dict: Option<&'a [u8]>,
    pub capture: Option<Capture<'a>>,
    pub record_calls: bool,
    /// pre-fill pattern for the output arena
    pub out_fill: u8,
    /// reuse: before the session proper the stream processes part of another byte string (abandoned wherever
    /// it then is: mid-header, mid-block, mid-match, after an error) and is reset with inflateReset; everything
    /// the oracles demand of a fresh stream is then demanded of the reused one (C API back ends only)
    pub prehistory: Option<Prehistory<'a>>,
}

pub struct Prehistory<'a> {
    pub bytes: &'a [u8],
    pub calls: usize,
    pub in_chunk: usize,
    pub out_chunk: usize,
    /// after those calls: inflateSync over bytes that contain no 00 00 FF FF marker (it must fail and change nothing)
    pub failed_sync: bool,
}

impl<'a> InfOpts<'a> {
    pub fn new(wbits: c_int) -> Self {
        InfOpts { wbits, max_out: 1 << 22, max_calls: 2_000_000, dict: None, capture: None, record_calls: false, out_fill: 0xA5, prehistory: None }
    }
}

pub struct InfRun {
    pub init_rc: c_int,
    pub out: Vec<u8>,
    pub status: Status,
    pub last_rc: c_int,
    pub total_in: u64,
    pub total_out: u64,
    pub ncalls: usize,
    pub calls: Vec<CallRec>,
    /// (property tag, signature, message)
    pub violations: Vec<(&'static str, String, String)>,
    pub need_dict_adler: Option<u64>,
    pub dict_rc: Option<c_int>,
    pub head: Option<HeadResult>,
    pub zero_progress_ok: usize,
    pub suspended_calls: usize,
    pub final_adler: u64,
    pub msg: Option<String>,
}

fn viol(run: &mut InfRun, tag: &'static str, sig: &str, msg: String) {
    if run.violations.len() < 8 {
        let msg = msg.replace("call {}", &format!("call {}", run.ncalls));
        run.violations.push((tag, sig.to_string(), msg));
    }
}


pub struct CallOut {
    pub rc: c_int,
    pub din_ptr: isize,
    pub dout_ptr: isize,
    pub avail_in: u32,
    pub avail_out: u32,
    pub total_in: u64,
    pub total_out: u64,
    pub adler: u64,
    pub data_type: c_int,
}

pub const RC_PANIC: c_int = -100;

/// what the interpreter needs from an inflate implementation
pub trait InfBack: Sized {
    const LABEL: &'static str;
    fn init(wbits: c_int) -> Result<Self, c_int>;
    fn call(&mut self, ip: *const u8, ic: usize, op: *mut u8, oc: usize, flush: c_int) -> CallOut;
    fn set_dict(&mut self, d: *const u8, n: usize) -> c_int;
    fn get_header(&mut self, _h: *mut gz_header) -> c_int {
        Z_STREAM_ERROR
    }
    fn totals(&self) -> (u64, u64, u64);
    fn msg(&self) -> Option<String>;
    /// inflateReset; None = this back end has no such operation
    fn reset(&mut self) -> Option<c_int> {
        None
    }
    fn sync(&mut self, _ip: *const u8, _ic: usize) -> Option<c_int> {
        None
    }
    fn end(self) -> c_int;
}

pub struct CApi<A: Z> {
    pub strm: Box<z_stream>,
    _a: core::marker::PhantomData<A>,
}

impl<A: Z> InfBack for CApi<A> {
    const LABEL: &'static str = A::NAME;
    fn init(wbits: c_int) -> Result<Self, c_int> {
        let mut strm = Box::new(zs_for::<A>());
        crate::guard::install_current(&mut strm);
        let rc = unsafe { A::inflateInit2(&mut *strm, wbits) };
        if rc != Z_OK {
            return Err(rc);
        }
        Ok(CApi { strm, _a: core::marker::PhantomData })
    }
    fn call(&mut self, ip: *const u8, ic: usize, op: *mut u8, oc: usize, flush: c_int) -> CallOut {
        let s = &mut *self.strm;
        s.next_in = ip;
        s.avail_in = ic as u32;
        s.next_out = op;
        s.avail_out = oc as u32;
        let rc = unsafe { A::inflate(s, flush) };
        CallOut {
            rc,
            din_ptr: (s.next_in as isize).wrapping_sub(ip as isize),
            dout_ptr: (s.next_out as isize).wrapping_sub(op as isize),
            avail_in: s.avail_in,
            avail_out: s.avail_out,
            total_in: s.total_in as u64,
            total_out: s.total_out as u64,
            adler: s.adler as u64,
            data_type: s.data_type,
        }
    }
    fn set_dict(&mut self, d: *const u8, n: usize) -> c_int {
        unsafe { A::inflateSetDictionary(&mut *self.strm, d, n as u32) }
    }
    fn get_header(&mut self, h: *mut gz_header) -> c_int {
        unsafe { A::inflateGetHeader(&mut *self.strm, h) }
    }
    fn reset(&mut self) -> Option<c_int> {
        Some(unsafe { A::inflateReset(&mut *self.strm) })
    }
    fn sync(&mut self, ip: *const u8, ic: usize) -> Option<c_int> {
        self.strm.next_in = ip;
        self.strm.avail_in = ic as u32;
        Some(unsafe { A::inflateSync(&mut *self.strm) })
    }
    fn totals(&self) -> (u64, u64, u64) {
        (self.strm.total_in as u64, self.strm.total_out as u64, self.strm.adler as u64)
    }
    fn msg(&self) -> Option<String> {
        if self.strm.msg.is_null() {
            None
        } else {
            Some(unsafe { std::ffi::CStr::from_ptr(self.strm.msg) }.to_string_lossy().into_owned())
        }
    }
    fn end(mut self) -> c_int {
        unsafe { A::inflateEnd(&mut *self.strm) }
    }
}

/// the safe Rust wrapper `zlib_rs::Inflate`
pub struct RustApi {
    pub inf: zlib_rs::Inflate,
    last_dict_id: u64,
}

fn flush_of(f: c_int) -> zlib_rs::InflateFlush {
    match f {
        Z_SYNC_FLUSH => zlib_rs::InflateFlush::SyncFlush,
        Z_FINISH => zlib_rs::InflateFlush::Finish,
        Z_BLOCK => zlib_rs::InflateFlush::Block,
        Z_TREES => zlib_rs::InflateFlush::Trees,
        _ => zlib_rs::InflateFlush::NoFlush,
    }
}

impl InfBack for RustApi {
    const LABEL: &'static str = "zlib_rs::Inflate";
    fn init(wbits: c_int) -> Result<Self, c_int> {
        let (hdr, w) = if wbits < 0 { (false, (-wbits) as u8) } else { (true, wbits as u8) };
        match std::panic::catch_unwind(|| zlib_rs::Inflate::new(hdr, w)) {
            Ok(inf) => Ok(RustApi { inf, last_dict_id: 0 }),
            Err(_) => Err(RC_PANIC),
        }
    }
    fn call(&mut self, ip: *const u8, ic: usize, op: *mut u8, oc: usize, flush: c_int) -> CallOut {
        let input = unsafe { core::slice::from_raw_parts(ip, ic) };
        let output = unsafe { core::slice::from_raw_parts_mut(op, oc) };
        let ti = self.inf.total_in();
        let to = self.inf.total_out();
        let inf = &mut self.inf;
        let r = std::panic::catch_unwind(std::panic::AssertUnwindSafe(|| inf.decompress(input, output, flush_of(flush))));
        let rc = match r {
            Err(_) => RC_PANIC,
            Ok(Ok(zlib_rs::Status::Ok)) => Z_OK,
            Ok(Ok(zlib_rs::Status::BufError)) => Z_BUF_ERROR,
            Ok(Ok(zlib_rs::Status::StreamEnd)) => Z_STREAM_END,
            Ok(Err(zlib_rs::InflateError::NeedDict { dict_id })) => {
                self.last_dict_id = dict_id as u64;
                Z_NEED_DICT
            }
            Ok(Err(zlib_rs::InflateError::StreamError)) => Z_STREAM_ERROR,
            Ok(Err(zlib_rs::InflateError::DataError)) => Z_DATA_ERROR,
            Ok(Err(zlib_rs::InflateError::MemError)) => Z_MEM_ERROR,
        };
        let din = (self.inf.total_in() - ti) as isize;
        let dout = (self.inf.total_out() - to) as isize;
        CallOut {
            rc,
            din_ptr: din,
            dout_ptr: dout,
            avail_in: (ic as isize - din).max(0) as u32,
            avail_out: (oc as isize - dout).max(0) as u32,
            total_in: self.inf.total_in(),
            total_out: self.inf.total_out(),
            adler: self.last_dict_id,
            data_type: 0,
        }
    }
    fn set_dict(&mut self, d: *const u8, n: usize) -> c_int {
        let dict = unsafe { core::slice::from_raw_parts(d, n) };
        match self.inf.set_dictionary(dict) {
            Ok(_) => Z_OK,
            Err(zlib_rs::InflateError::DataError) => Z_DATA_ERROR,
            Err(_) => Z_STREAM_ERROR,
        }
    }
    fn totals(&self) -> (u64, u64, u64) {
        (self.inf.total_in(), self.inf.total_out(), 0)
    }
    fn msg(&self) -> Option<String> {
        self.inf.error_message().map(|s| s.to_string())
    }
    fn end(self) -> c_int {
        Z_OK
    }
}

pub fn run_inflate<A: Z>(data: &[u8], sched: &InfSchedule, o: &InfOpts, ar: &Arenas) -> InfRun {
    run_inflate_with::<CApi<A>>(data, sched, o, ar)
}

/// Drive one inflate session over `data` following `sched`.
pub fn run_inflate_with<B: InfBack>(data: &[u8], sched: &InfSchedule, o: &InfOpts, ar: &Arenas) -> InfRun {
    let mut run = InfRun {
        init_rc: 0,
        out: Vec::new(),
        status: Status::NeedsMore,
        last_rc: 0,
        total_in: 0,
        total_out: 0,
        ncalls: 0,
        calls: Vec::new(),
        violations: Vec::new(),
        need_dict_adler: None,
        dict_rc: None,
        head: None,
        zero_progress_ok: 0,
        suspended_calls: 0,
        final_adler: 0,
        msg: None,
    };
    let mut be = match B::init(o.wbits) {
        Ok(b) => b,
        Err(rc) => {
            run.init_rc = rc;
            run.status = Status::StreamError;
            run.last_rc = rc;
            return run;
        }
    };
    if let Some(ph) = &o.prehistory {
        let mut pos = 0usize;
        for _ in 0..ph.calls {
            let ic = ph.in_chunk.min(ph.bytes.len() - pos).min(ar.inp.cap);
            let oc = ph.out_chunk.min(ar.out.cap - 64);
            let ip = ar.inp.put_right(&ph.bytes[pos..pos + ic]);
            let op = ar.out.right(oc);
            let co = be.call(ip, ic, op, oc, Z_NO_FLUSH);
            pos += (co.din_ptr.max(0) as usize).min(ic);
            if !matches!(co.rc, Z_OK | Z_BUF_ERROR) {
                break;
            }
        }
        if ph.failed_sync {
            let junk = [0x55u8, 0xAA, 0x12, 0x34, 0x56, 0x78, 0x9A];
            let ip = ar.inp.put_right(&junk);
            if let Some(rc) = be.sync(ip, junk.len()) {
                if rc == Z_OK {
                    viol(&mut run, "C14", "reuse/inflateSync-found-marker", "inflateSync reported success on bytes without a 00 00 FF FF marker".to_string());
                }
            }
        }
        if let Some(rc) = be.reset() {
            if rc != Z_OK {
                viol(&mut run, "C14", "reuse/inflateReset-status", format!("inflateReset of a stream abandoned after {} bytes of another input returned {}", pos, rc_name(rc)));
            }
        }
    }
    if let (Some(d), true) = (o.dict, o.wbits < 0) {
        // raw stream: the dictionary is installed before the first call (there is no NEED_DICT)
        let dp = ar.dict.put_right(&d[..d.len().min(ar.dict.cap)]);
        run.dict_rc = Some(be.set_dict(dp, d.len().min(ar.dict.cap)));
    }
    let mut head_store: Option<Box<gz_header>> = None;
    if let Some(c) = &o.capture {
        let mut h = Box::new(gz_header::default());
        // capture buffers end exactly at a guard page
        if let Some(m) = c.extra_max {
            h.extra = c.arenas[0].right(m as usize);
            h.extra_max = m;
            c.arenas[0].fill(0xEE);
        }
        if let Some(m) = c.name_max {
            h.name = c.arenas[1].right(m as usize);
            h.name_max = m;
            c.arenas[1].fill(0xEE);
        }
        if let Some(m) = c.comm_max {
            h.comment = c.arenas[2].right(m as usize);
            h.comm_max = m;
            c.arenas[2].fill(0xEE);
        }
        h.done = 77;
        let rc = be.get_header(&mut *h);
        run.head = Some(HeadResult { head: copy_head(&h), extra: vec![], name: vec![], comment: vec![], done_trace: vec![], get_header_rc: rc, extra_ptr_set: false, name_ptr_set: false, comm_ptr_set: false });
        head_store = Some(h);
    }
    ar.out.fill(o.out_fill);
    let mut pos = 0usize; // next unconsumed input byte
    let stage = InStage::new(ar, data, sched.in_right);
    let data = &data[..stage.len()];
    let mut step_i = 0usize;
    let total_steps = sched.steps.len() * sched.cycles;
    let mut tail_stall = 0usize;
    let mut prev_total_in = 0u64;
    let mut prev_total_out = 0u64;
    loop {
        if run.ncalls >= o.max_calls {
            run.status = Status::CallLimit;
            break;
        }
        let in_tail = step_i >= total_steps;
        let (ic, oc, flush) = if !in_tail {
            let s = sched.steps[step_i % sched.steps.len()];
            step_i += 1;
            (s.in_chunk, s.out_chunk, s.flush)
        } else {
            // deliver everything: after a stall use ample buffers so the session must finish
            if tail_stall >= 2 {
                (usize::MAX, 1 << 20, Z_NO_FLUSH)
            } else {
                (sched.tail_in, sched.tail_out, Z_NO_FLUSH)
            }
        };
        let ic = ic.min(data.len() - pos);
        let oc = oc.min(ar.out.cap - 64);
        let ip = stage.chunk(ar, data, pos, ic);
        let op = if sched.out_right { ar.out.right(oc) } else { unsafe { ar.out.left(oc).add(64) } };
        // canaries around the output region (inside the arena)
        unsafe {
            core::ptr::write_bytes(op.sub(32), 0xC7, 32);
            if !sched.out_right {
                core::ptr::write_bytes(op.add(oc), 0xC7, 32);
            }
        }
        let strm = be.call(ip, ic, op, oc, flush);
        let rc = strm.rc;
        run.ncalls += 1;
        run.last_rc = rc;
        // --- accounting (C15) -------------------------------------------------------------
        let din_ptr = strm.din_ptr as usize;
        let dout_ptr = strm.dout_ptr as usize;
        let din_av = (ic as u32).wrapping_sub(strm.avail_in);
        let dout_av = (oc as u32).wrapping_sub(strm.avail_out);
        let bad_in = strm.avail_in as usize > ic || din_ptr != din_av as usize;
        let bad_out = strm.avail_out as usize > oc || dout_ptr != dout_av as usize;
        if bad_in || bad_out {
            viol(&mut run, "C15", "inflate/cursor-mismatch", format!("call {{}}: avail_in {}->{} next_in moved {}; avail_out {}->{} next_out moved {} (rc {})", ic, strm.avail_in, din_ptr as isize, oc, strm.avail_out, dout_ptr as isize, rc));
            run.status = Status::StreamError;
            break;
        }
        let din = din_av;
        let dout = dout_av;
        // (the call that answers Z_NEED_DICT included: stock zlib forgets to count the header bytes of that call, which
        // is why C16 does not compare totals there - C15 says what they must be: the sum over all calls)
        {
            if strm.total_in as u64 != prev_total_in + din as u64 || strm.total_out as u64 != prev_total_out + dout as u64 {
                viol(&mut run, "C15", "inflate/totals", format!("call {{}}: total_in {}->{} but consumed {}; total_out {}->{} but produced {}", prev_total_in, strm.total_in, din, prev_total_out, strm.total_out, dout));
            }
        }
        prev_total_in = strm.total_in as u64;
        prev_total_out = strm.total_out as u64;
        // canaries
        unsafe {
            let before = core::slice::from_raw_parts(op.sub(32), 32);
            if before.iter().any(|&b| b != 0xC7) {
                viol(&mut run, "C02", "inflate/write-before-next_out", "call {}: bytes before next_out were modified".to_string());
            }
            if !sched.out_right {
                let after = core::slice::from_raw_parts(op.add(oc), 32);
                if after.iter().any(|&b| b != 0xC7) {
                    viol(&mut run, "C02", "inflate/write-past-avail_out", "call {}: bytes past next_out+avail_out were modified".to_string());
                }
            }
        }
        if o.record_calls && run.calls.len() < 4096 {
            run.calls.push(CallRec { flush, avail_in: ic as u32, avail_out: oc as u32, rc, din, dout, data_type: strm.data_type, adler: strm.adler as u64 });
        }
        run.out.extend_from_slice(unsafe { core::slice::from_raw_parts(op, dout as usize) });
        pos += din as usize;
        if let (Some(h), Some(hr)) = (&head_store, &mut run.head) {
            if hr.done_trace.last().map(|x| x.1) != Some(h.done) && hr.done_trace.len() < 64 {
                hr.done_trace.push((strm.total_in as u64, h.done));
            }
        }
        // --- return code domain (C02) ---------------------------------------------------------
        match rc {
            Z_OK | Z_STREAM_END | Z_NEED_DICT | Z_DATA_ERROR | Z_BUF_ERROR | Z_MEM_ERROR => {}
            RC_PANIC => {
                viol(&mut run, "C02", "inflate/panic", format!("call {{}}: {} panicked", B::LABEL));
                run.status = Status::StreamError;
                break;
            }
            _ => {
                viol(&mut run, "C02", "inflate/undocumented-status", format!("call {{}}: inflate returned {} ({})", rc, rc_name(rc)));
            }
        }
        // BUF_ERROR only when nothing moved, or FINISH that could not complete (C15)
        if rc == Z_BUF_ERROR && (din != 0 || dout != 0) && flush != Z_FINISH {
            viol(&mut run, "C15", "inflate/buf-error-with-progress", format!("call {{}}: Z_BUF_ERROR although {} bytes consumed / {} produced (flush {})", din, dout, flush));
        }
        if rc == Z_OK && din == 0 && dout == 0 {
            run.zero_progress_ok += 1;
        }
        if run.out.len() > o.max_out {
            run.status = Status::OutLimit;
            break;
        }
        match rc {
            Z_STREAM_END => {
                run.status = Status::StreamEnd;
                break;
            }
            Z_DATA_ERROR => {
                run.status = Status::DataError;
                break;
            }
            Z_MEM_ERROR => {
                run.status = Status::MemError;
                break;
            }
            Z_STREAM_ERROR => {
                run.status = Status::StreamError;
                break;
            }
            Z_NEED_DICT => {
                run.need_dict_adler = Some(strm.adler as u64);
                if let Some(d) = o.dict {
                    let dp = ar.dict.put_right(d);
                    let r = be.set_dict(dp, d.len());
                    run.dict_rc = Some(r);
                    if r != Z_OK {
                        run.status = if r == Z_DATA_ERROR { Status::DataError } else { Status::StreamError };
                        run.last_rc = r;
                        break;
                    }
                    // inflateSetDictionary moves no stream data: the totals must be what they were
                    let (ti, to, _) = be.totals();
                    if ti != prev_total_in || to != prev_total_out {
                        viol(&mut run, "C15", "inflate/totals-after-set-dictionary", format!("inflateSetDictionary changed the totals: total_in {}->{} total_out {}->{}", prev_total_in, ti, prev_total_out, to));
                    }
                    prev_total_in = ti;
                    prev_total_out = to;
                    continue;
                }
                run.status = Status::NeedDict;
                break;
            }
            _ => {}
        }
        if in_tail {
            if din == 0 && dout == 0 {
                tail_stall += 1;
                if tail_stall >= 3 {
                    // all input offered, ample output offered, nothing moves: needs more input
                    if pos < data.len() || rc != Z_BUF_ERROR {
                        // still unconsumed input with ample output space and no terminal status
                        viol(&mut run, "C02", "inflate/no-progress", format!("call {{}}: inflate(NO_FLUSH) with {} input bytes and {} output bytes available moved nothing and returned {}", data.len() - pos, oc, rc_name(rc)));
                    }
                    run.status = Status::NeedsMore;
                    break;
                }
            } else {
                tail_stall = 0;
            }
        }
    }
    let (ti, to, ad) = be.totals();
    run.total_in = ti;
    run.total_out = to;
    run.final_adler = ad;
    run.msg = be.msg();
    if let (Some(h), Some(hr), Some(c)) = (&head_store, &mut run.head, &o.capture) {
        hr.head = copy_head(h);
        hr.extra_ptr_set = !h.extra.is_null();
        hr.name_ptr_set = !h.name.is_null();
        hr.comm_ptr_set = !h.comment.is_null();
        if let Some(m) = c.extra_max {
            hr.extra = unsafe { core::slice::from_raw_parts(c.arenas[0].right(m as usize), m as usize) }.to_vec();
        }
        if let Some(m) = c.name_max {
            hr.name = unsafe { core::slice::from_raw_parts(c.arenas[1].right(m as usize), m as usize) }.to_vec();
        }
        if let Some(m) = c.comm_max {
            hr.comment = unsafe { core::slice::from_raw_parts(c.arenas[2].right(m as usize), m as usize) }.to_vec();
        }
    }
    let erc = be.end();
    if erc != Z_OK {
        viol(&mut run, "C02", "inflateEnd/status", format!("inflateEnd returned {}", erc));
    }
    drop(head_store);
    run
}

pub fn status_name(s: Status) -> &'static str {
    match s {
        Status::StreamEnd => "STREAM_END",
        Status::DataError => "DATA_ERROR",
        Status::NeedDict => "NEED_DICT",
        Status::NeedsMore => "needs-more-input",
        Status::MemError => "MEM_ERROR",
        Status::StreamError => "STREAM_ERROR",
        Status::CallLimit => "call-limit",
        Status::OutLimit => "output-limit",
    }
}

pub fn copy_head(h: &gz_header) -> gz_header {
    gz_header { text: h.text, time: h.time, xflags: h.xflags, os: h.os, extra: h.extra, extra_len: h.extra_len, extra_max: h.extra_max, name: h.name, name_max: h.name_max, comment: h.comment, comm_max: h.comm_max, hcrc: h.hcrc, done: h.done }
}
