//! E-PROG: programs over the C API (deflate / inflate / one-shot / checksum entry points) with
//! arbitrary integer arguments, executed on one implementation (C06) or on zlib-ng and zlib-rs in
//! lock-step (C16).
use crate::api::*;
use crate::edef::{make_gz_header, GzHold};
use crate::einf::Arenas;
use crate::gen::*;
use crate::refimpl::rgen::{gen_gz_fields, GzFields};
use crate::tape::Tape;
use core::ffi::{c_int, c_uint, c_ulong};

#[derive(Clone, Debug)]
pub enum Op {
    DInit { level: c_int, method: c_int, wbits: c_int, mem: c_int, strategy: c_int },
    DDeflate { which: usize, in_len: usize, out_len: usize, flush: c_int },
    DParams { which: usize, level: c_int, strategy: c_int, out_len: usize },
    DTune { which: usize, a: c_int, b: c_int, c: c_int, d: c_int },
    DPrime { which: usize, bits: c_int, value: c_int },
    DPending { which: usize, null_pending: bool, null_bits: bool },
    DBound { which: usize, n: u64, null: bool },
    DSetDict { which: usize, len: usize, null: bool },
    DGetDict { which: usize, null_buf: bool, null_len: bool },
    DSetHeader { which: usize, fields: Option<GzFields> },
    DReset { which: usize },
    DResetKeep { which: usize },
    DCopy,
    DEnd { which: usize },
    IInit { wbits: c_int },
    IInflate { in_len: usize, out_len: usize, flush: c_int },
    IReset,
    IReset2 { wbits: c_int },
    IResetKeep,
    ICopyBack, // inflateCopy to a scratch stream, then swap it in and end the old one
    IEnd,
    ISetDict { len: usize, null: bool },
    IGetDict { null_buf: bool, null_len: bool },
    IGetHeader { null: bool },
    IPrime { bits: c_int, value: c_int },
    ISync { in_len: usize },
    ISyncPoint,
    IMark,
    IValidate { v: c_int },
    IUndermine { v: c_int },
    ICodesUsed,
    Compress2 { n: usize, cap: usize, level: c_int },
    Uncompress { cap: usize, use2: bool },
    CompressBound { n: u64 },
    Adler { start: u32, len: usize, null: bool },
    Crc { start: u32, len: usize, null: bool },
    NullStream { f: usize },
}

#[derive(Clone, Debug, Default, PartialEq)]
pub struct OpRes {
    pub rc: i64,
    pub din: u32,
    pub dout: u32,
    pub out: Vec<u8>,
    /// further observables that are compared
    pub vals: Vec<i64>,
    /// observables recorded but NOT compared (zlib is silent / self-inconsistent there)
    pub info: Vec<i64>,
}

pub struct Program {
    pub ops: Vec<Op>,
    pub data: Vec<u8>,
    pub comp: Vec<u8>,
    pub dict: Vec<u8>,
    pub wild: bool,
    /// execute every successful-looking deflateReset as deflateEnd + deflateInit2 with the current parameters
    /// (used to tell whether zlib-ng's reset stream differs from zlib-ng's own fresh stream)
    pub reset_as_reinit: bool,
}

fn wild_int(t: &mut Tape, lo: c_int, hi: c_int, wild: bool) -> c_int {
    // around the legal range, plus extremes
    if wild && t.chance(70) {
        return t.pick(&[lo - 1, hi + 1, 0, -1, -2, i32::MIN, i32::MAX, lo - 2, hi + 2, 100, 255, 256, 65536]);
    }
    lo + t.below((hi - lo + 1) as usize) as c_int
}

pub fn gen_program(t: &mut Tape, wild: bool, max_ops: usize) -> Program {
    let dwb = 9 + t.below(7) as u32;
    let dmax = t.pick(&[200usize, 3000, 20_000]);
    let data = gen_data(t, dwb, dmax);
    // compressed pool for the inflate slot: a stream made by zlib-ng, sometimes mutated
    let mut ccfg = gen_cfg(t);
    if ccfg.wrap != crate::refimpl::rgzh::Wrap::Zlib && ccfg.wbits == 8 {
        ccfg.wbits = 9;
    }
    let dict_len = t.pick(&[0usize, 1, 30, 300, 40_000]);
    let dict: Vec<u8> = (0..dict_len).map(|i| data.get(i % data.len().max(1)).copied().unwrap_or(7).wrapping_add((i / 251) as u8)).collect();
    let use_dict = ccfg.wrap != crate::refimpl::rgzh::Wrap::Gzip && t.chance(60) && !dict.is_empty();
    let mut comp = deflate_oneshot::<Ng>(&ccfg, &data, if use_dict { Some(&dict) } else { None }).unwrap_or_default();
    if t.chance(50) {
        let other = t.bytes(4);
        crate::refimpl::rgen::mutate(t, &mut comp, &other);
    }
    if t.chance(40) {
        let n = t.below(20);
        comp.extend(t.bytes(n));
    }
    let n = 1 + t.below(max_ops);
    let mut ops = Vec::new();
    // most programs start with sensible inits so that the interesting ops reach live streams
    if t.chance(220) {
        let wl = wild && t.chance(30);
        let lvl = wild_int(t, -1, 9, wl);
        let wb = match ccfg.wrap {
            crate::refimpl::rgzh::Wrap::Raw => -(ccfg.wbits as c_int),
            crate::refimpl::rgzh::Wrap::Zlib => ccfg.wbits as c_int,
            _ => 16 + ccfg.wbits as c_int,
        };
        ops.push(Op::DInit { level: lvl, method: 8, wbits: wb, mem: ccfg.mem_level, strategy: ccfg.strategy });
    }
    if t.chance(220) {
        // zlib-rs always keeps 32 KiB of history (C03/C13); zlib-ng's verdict on distances beyond a smaller
        // window depends on the call schedule, so the lock-step comparison uses 32 KiB windows only
        let m = match ccfg.wrap {
            crate::refimpl::rgzh::Wrap::Raw => -15,
            crate::refimpl::rgzh::Wrap::Zlib => 15,
            _ => 31,
        };
        ops.push(Op::IInit { wbits: t.pick(&[m, m, m, 47, 15, -15, 31]) });
    }
    let sizes = [0usize, 1, 1, 2, 5, 6, 9, 16, 100, 258, 300, 1000, 5000, 70000];
    for _ in 0..n {
        let k = t.below(64);
        let which = if t.chance(40) { 1 } else { 0 };
        let op = match k {
            0 => Op::DInit { level: wild_int(t, -1, 9, wild), method: if wild && t.chance(30) { t.pick(&[0, 7, 9, -1]) } else { 8 }, wbits: { let w = wild_int(t, 8, 15, wild); match t.below(3) { 0 => w.wrapping_neg(), 1 => w, _ => w.saturating_add(16) } }, mem: wild_int(t, 1, 9, wild), strategy: wild_int(t, 0, 4, wild) },
            1..=14 => Op::DDeflate { which, in_len: t.pick(&sizes), out_len: t.pick(&sizes), flush: if wild && t.chance(20) { t.pick(&[-1, 6, 7, 100, i32::MIN]) } else { t.pick(&[0, 0, 0, 1, 2, 3, 4, 5, 4]) } },
            15 | 16 => Op::DParams { which, level: wild_int(t, -1, 9, wild), strategy: wild_int(t, 0, 4, wild), out_len: t.pick(&sizes) },
            17 => {
                // zlib does not validate tune values; zlib-rs stores them in 16 bits, zlib-ng in 32: values
                // beyond 0..=65535 (meaningless for a 32 KiB window / 258 byte matches) are not compared
                // and >= 4 (every row of the configuration table): smaller chain values make zlib-ng's chain counter wrap
                let tv = |t: &mut Tape| -> c_int { if t.chance(60) { 4 + (t.u16() as c_int % 4093) } else { t.pick(&[4, 5, 8, 32, 128, 258, 259, 1024, 4096]) } };
                Op::DTune { which, a: tv(t), b: tv(t), c: tv(t), d: tv(t) }
            }
            18 | 19 => Op::DPrime { which, bits: if wild { wild_int(t, 0, 16, true) } else { t.below(17) as c_int }, value: t.u32() as c_int },
            20 => Op::DPending { which, null_pending: wild && t.chance(40), null_bits: wild && t.chance(40) },
            21 => Op::DBound { which, n: t.pick(&[0u64, 1, 100, 70000, u32::MAX as u64, u64::MAX >> 1]), null: wild && t.chance(30) },
            22 => Op::DSetDict { which, len: t.pick(&[0usize, 1, 30, 300, 40_000]).min(dict.len()), null: wild && t.chance(30) },
            23 => Op::DGetDict { which, null_buf: t.chance(60), null_len: wild && t.chance(40) },
            24 => Op::DSetHeader { which, fields: if wild && t.chance(40) { None } else { let big = t.bool(); Some(gen_gz_fields(t, big)) } },
            25 | 26 => Op::DReset { which },
            27 => Op::DResetKeep { which },
            28 | 29 => Op::DCopy,
            30 => Op::DEnd { which },
            31 => Op::IInit { wbits: if wild { t.pick(&[-16, -15, -15, -7, -1, 1, 7, 15, 15, 23, 31, 31, 39, 47, 47, 48, 63, 64, i32::MAX, i32::MIN]) } else { t.pick(&[-15, 15, 31, 47]) } },
            32..=45 => Op::IInflate { in_len: t.pick(&sizes), out_len: t.pick(&sizes), flush: if wild && t.chance(20) { t.pick(&[-1, 7, 100, i32::MIN]) } else { t.pick(&[0, 0, 0, 2, 4, 5, 6, 1, 3]) } },
            46 => Op::IReset,
            47 => Op::IReset2 { wbits: if wild { t.pick(&[-16, -15, -7, 7, 15, 23, 31, 39, 47, 48, i32::MIN]) } else { t.pick(&[-15, 15, 31, 47]) } },
            48 => Op::IResetKeep,
            49 => Op::ICopyBack,
            50 => Op::IEnd,
            51 => Op::ISetDict { len: t.pick(&[0usize, 1, 30, 300, 40_000]).min(dict.len()), null: wild && t.chance(30) },
            52 => Op::IGetDict { null_buf: t.chance(60), null_len: wild && t.chance(40) },
            53 => Op::IGetHeader { null: wild && t.chance(40) },
            54 => Op::IPrime { bits: if wild { wild_int(t, -1, 32, true) } else { t.below(17) as c_int }, value: t.u32() as c_int },
            55 => Op::ISync { in_len: t.pick(&sizes) },
            56 => Op::ISyncPoint,
            57 => Op::IMark,
            58 => Op::IValidate { v: t.pick(&[0, 1, 1, 2, -1]) },
            59 => Op::IUndermine { v: t.pick(&[0, 1, -1, 2]) },
            60 => Op::ICodesUsed,
            61 => match t.below(3) {
                0 => Op::Compress2 { n: t.pick(&sizes).min(data.len()), cap: t.pick(&sizes), level: wild_int(t, -1, 9, wild) },
                1 => Op::Uncompress { cap: t.pick(&sizes), use2: t.bool() },
                _ => Op::CompressBound { n: t.pick(&[0u64, 1, 1000, u32::MAX as u64]) },
            },
            62 => {
                if t.bool() {
                    Op::Adler { start: t.u32(), len: t.pick(&sizes).min(data.len()), null: t.chance(40) }
                } else {
                    Op::Crc { start: t.u32(), len: t.pick(&sizes).min(data.len()), null: t.chance(40) }
                }
            }
            _ => {
                if wild {
                    Op::NullStream { f: t.below(24) }
                } else {
                    Op::DPending { which, null_pending: false, null_bits: false }
                }
            }
        };
        ops.push(op);
    }
    Program { ops, data, comp, dict, wild, reset_as_reinit: false }
}

pub struct Exec {
    pub res: Vec<OpRes>,
    pub d_out: [Vec<u8>; 2],
    pub i_out: Vec<u8>,
}

pub fn run_program<A: Z>(p: &Program, ar: &Arenas) -> Exec {
    let mut res = Vec::with_capacity(p.ops.len());
    let mut d: [Box<z_stream>; 2] = [Box::new(zs_for::<A>()), Box::new(zs_for::<A>())];
    let mut i: Box<z_stream> = Box::new(zs_for::<A>());
    let mut dpos = [0usize; 2];
    // deflatePrime is documented for raw streams before the first deflate() call only
    let mut d_params: [(c_int, c_int, c_int, c_int, c_int); 2] = [(0, 0, 0, 0, 0); 2];
    let mut d_hdr: [Option<usize>; 2] = [None, None];
    // inflatePrime likewise: raw inflate, before the first inflate() after init/reset
    let mut i_raw = false;
    let mut i_called = true;
    // after Z_DATA_ERROR the contents of the history window are unspecified: ResetKeep is then run as Reset
    let mut i_error = false;
    // deflateResetKeep (undocumented; keeps window and match state) is only exercised at points where no
    // consumed-but-uncompressed input is held: after init/reset, a completed sync/full flush or stream end
    let mut d_dirty = [false; 2];
    let mut d_raw = [false; 2];
    let mut d_called = [true; 2];
    let mut ipos = 0usize;
    let mut holds: Vec<GzHold> = Vec::new();
    let mut ihead: Box<gz_header> = Box::new(gz_header::default());
    let mut d_out: [Vec<u8>; 2] = [Vec::new(), Vec::new()];
    let mut i_out: Vec<u8> = Vec::new();
    let dictp = ar.dict.put_right(&p.dict[..p.dict.len().min(ar.dict.cap)]);
    for op in &p.ops {
        let mut r = OpRes::default();
        match op {
            Op::DInit { level, method, wbits, mem, strategy } => {
                // re-initialising a live stream would leak in both libraries: end it first
                if !d[0].state.is_null() {
                    unsafe { A::deflateEnd(&mut *d[0]) };
                }
                *d[0] = zs_for::<A>();
                dpos[0] = 0;
                d_out[0].clear();
                r.rc = unsafe { A::deflateInit2(&mut *d[0], *level, *method, *wbits, *mem, *strategy) } as i64;
                d_raw[0] = *wbits < 0;
                d_called[0] = false;
                d_params[0] = (*level, *method, *wbits, *mem, *strategy);
                d_dirty[0] = false;
                d_hdr[0] = None;
            }
            Op::DDeflate { which, in_len, out_len, flush } => {
                let w = *which;
                let ic = (*in_len).min(p.data.len() - dpos[w].min(p.data.len()));
                let oc = (*out_len).min(ar.out.cap - 64);
                let ip = ar.inp.put_right(&p.data[dpos[w].min(p.data.len())..dpos[w].min(p.data.len()) + ic]);
                let op_ = ar.out.right(oc);
                let s = &mut *d[w];
                s.next_in = ip;
                s.avail_in = ic as u32;
                s.next_out = op_;
                s.avail_out = oc as u32;
                r.rc = unsafe { A::deflate(s, *flush) } as i64;
                d_called[w] = true;
                if ic as u32 != s.avail_in {
                    d_dirty[w] = true;
                }
                if r.rc == Z_STREAM_END as i64 || (r.rc == 0 && s.avail_out > 0 && s.avail_in == 0 && matches!(*flush, Z_SYNC_FLUSH | Z_FULL_FLUSH)) {
                    d_dirty[w] = false;
                }
                r.din = (ic as u32).wrapping_sub(s.avail_in);
                r.dout = (oc as u32).wrapping_sub(s.avail_out);
                if r.din as usize <= ic && r.dout as usize <= oc {
                    r.out = unsafe { core::slice::from_raw_parts(op_, r.dout as usize) }.to_vec();
                    dpos[w] += r.din as usize;
                    d_out[w].extend_from_slice(&r.out);
                }
            }
            Op::DParams { which, level, strategy, out_len } => {
                let w = *which;
                let oc = (*out_len).min(ar.out.cap - 64);
                let op_ = ar.out.right(oc);
                let s = &mut *d[w];
                s.next_in = ar.inp.right(0);
                s.avail_in = 0;
                s.next_out = op_;
                s.avail_out = oc as u32;
                r.rc = unsafe { A::deflateParams(s, *level, *strategy) } as i64;
                d_called[w] = true;
                if r.rc == 0 {
                    d_params[w].0 = *level;
                    d_params[w].4 = *strategy;
                }
                r.dout = (oc as u32).wrapping_sub(s.avail_out);
                if r.dout as usize <= oc {
                    r.out = unsafe { core::slice::from_raw_parts(op_, r.dout as usize) }.to_vec();
                    d_out[w].extend_from_slice(&r.out);
                }
            }
            Op::DTune { which, a, b, c, d: dd } => {
                r.rc = unsafe { A::deflateTune(&mut *d[*which], *a, *b, *c, *dd) } as i64;
            }
            Op::DPrime { which, bits, value } => {
                if p.wild || (d_raw[*which] && !d_called[*which]) {
                    if d_raw[*which] && !d_called[*which] {
                        r.rc = unsafe { A::deflatePrime(&mut *d[*which], *bits, *value) } as i64;
                    } else {
                        r.rc = -999; // outside the documented use of deflatePrime: not executed
                    }
                } else {
                    r.rc = -999;
                }
            }
            Op::DPending { which, null_pending, null_bits } => {
                let mut pe: c_uint = 0x7777;
                let mut bi: c_int = 0x7777;
                r.rc = unsafe { A::deflatePending(&mut *d[*which], if *null_pending { core::ptr::null_mut() } else { &mut pe }, if *null_bits { core::ptr::null_mut() } else { &mut bi }) } as i64;
                if r.rc == 0 {
                    r.vals.push(pe as i64);
                    r.vals.push(bi as i64);
                }
            }
            Op::DBound { which, n, null } => {
                let v = unsafe { A::deflateBound(if *null { core::ptr::null_mut() } else { &mut *d[*which] }, *n as c_ulong) };
                r.rc = 0;
                r.vals.push(v as i64);
            }
            Op::DSetDict { which, len, null } => {
                r.rc = unsafe { A::deflateSetDictionary(&mut *d[*which], if *null { core::ptr::null() } else { dictp }, *len as c_uint) } as i64;
            }
            Op::DGetDict { which, null_buf, null_len } => {
                let cap = 70_000;
                let bp = ar.aux[0].right(cap);
                let mut n: c_uint = 0x5555;
                r.rc = unsafe { A::deflateGetDictionary(&mut *d[*which], if *null_buf { core::ptr::null_mut() } else { bp }, if *null_len { core::ptr::null_mut() } else { &mut n }) } as i64;
                if r.rc == 0 && !*null_len {
                    r.vals.push(n as i64);
                    if !*null_buf && (n as usize) <= cap {
                        r.out = unsafe { core::slice::from_raw_parts(bp, n as usize) }.to_vec();
                    }
                }
            }
            // documented: after deflateInit2/deflateReset and before the first call of deflate
            Op::DSetHeader { which, .. } if d_called[*which] && !d[*which].state.is_null() => {
                r.rc = -999;
            }
            Op::DSetHeader { which, fields } => match fields {
                Some(f) => {
                    let mut h = make_gz_header(f);
                    r.rc = unsafe { A::deflateSetHeader(&mut *d[*which], &mut *h.head) } as i64;
                    holds.push(h);
                    if r.rc == 0 {
                        d_hdr[*which] = Some(holds.len() - 1);
                    }
                }
                None => {
                    r.rc = unsafe { A::deflateSetHeader(&mut *d[*which], core::ptr::null_mut()) } as i64;
                }
            },
            Op::DReset { which } if p.reset_as_reinit && !d[*which].state.is_null() => {
                let w = *which;
                unsafe { A::deflateEnd(&mut *d[w]) };
                *d[w] = zs_for::<A>();
                let (l, m, wb, me, sg) = d_params[w];
                r.rc = unsafe { A::deflateInit2(&mut *d[w], l, m, wb, me, sg) } as i64;
                if let Some(hi) = d_hdr[w] {
                    unsafe { A::deflateSetHeader(&mut *d[w], &mut *holds[hi].head) };
                }
                dpos[w] = dpos[w];
                d_out[w].clear();
                d_called[w] = false;
            }
            Op::DReset { which } => {
                r.rc = unsafe { A::deflateReset(&mut *d[*which]) } as i64;
                if r.rc == 0 {
                    d_out[*which].clear();
                    d_called[*which] = false;
                    d_dirty[*which] = false;
                }
            }
            Op::DResetKeep { which } if d_dirty[*which] && !d[*which].state.is_null() => {
                r.rc = -999;
            }
            Op::DResetKeep { which } => {
                r.rc = unsafe { A::deflateResetKeep(&mut *d[*which]) } as i64;
                if r.rc == 0 {
                    d_called[*which] = false;
                }
            }
            Op::DCopy => {
                if !d[1].state.is_null() {
                    unsafe { A::deflateEnd(&mut *d[1]) };
                }
                *d[1] = zs_for::<A>();
                let (a, b) = d.split_at_mut(1);
                r.rc = unsafe { A::deflateCopy(&mut *b[0], &mut *a[0]) } as i64;
                if r.rc != 0 {
                    *b[0] = zs_for::<A>();
                } else {
                    dpos[1] = dpos[0];
                    d_out[1] = d_out[0].clone();
                    d_raw[1] = d_raw[0];
                    d_called[1] = d_called[0];
                    d_params[1] = d_params[0];
                    d_dirty[1] = d_dirty[0];
                    d_hdr[1] = d_hdr[0];
                }
            }
            Op::DEnd { which } => {
                r.rc = unsafe { A::deflateEnd(&mut *d[*which]) } as i64;
            }
            Op::IInit { wbits } => {
                if !i.state.is_null() {
                    unsafe { A::inflateEnd(&mut *i) };
                }
                *i = zs_for::<A>();
                ipos = 0;
                i_out.clear();
                r.rc = unsafe { A::inflateInit2(&mut *i, *wbits) } as i64;
                i_raw = *wbits < 0;
                i_called = false;
                i_error = false;
            }
            Op::IInflate { in_len, out_len, flush } => {
                let start = ipos.min(p.comp.len());
                let ic = (*in_len).min(p.comp.len() - start);
                let oc = (*out_len).min(ar.out.cap - 64);
                let ip = ar.inp.put_right(&p.comp[start..start + ic]);
                let op_ = ar.out.right(oc);
                let s = &mut *i;
                s.next_in = ip;
                s.avail_in = ic as u32;
                s.next_out = op_;
                s.avail_out = oc as u32;
                r.rc = unsafe { A::inflate(s, *flush) } as i64;
                i_called = true;
                if r.rc == Z_DATA_ERROR as i64 {
                    i_error = true;
                }
                r.din = (ic as u32).wrapping_sub(s.avail_in);
                r.dout = (oc as u32).wrapping_sub(s.avail_out);
                if r.din as usize <= ic && r.dout as usize <= oc {
                    r.out = unsafe { core::slice::from_raw_parts(op_, r.dout as usize) }.to_vec();
                    ipos += r.din as usize;
                    i_out.extend_from_slice(&r.out);
                }
                if r.rc == Z_NEED_DICT as i64 {
                    r.vals.push(s.adler as i64);
                }
                // data_type is C10's observable, not part of C16's statement (status + data movement)
                r.info.push(s.data_type as i64);
                r.info.push(s.total_in as i64);
                r.info.push(s.total_out as i64);
            }
            Op::IReset => {
                r.rc = unsafe { A::inflateReset(&mut *i) } as i64;
                if r.rc == 0 {
                    i_called = false;
                    i_error = false;
                }
            }
            Op::IReset2 { wbits } => {
                r.rc = unsafe { A::inflateReset2(&mut *i, *wbits) } as i64;
                if r.rc == 0 {
                    i_called = false;
                    i_error = false;
                    i_raw = *wbits < 0;
                }
            }
            Op::IResetKeep => {
                r.rc = if i_error { unsafe { A::inflateReset(&mut *i) } } else { unsafe { A::inflateResetKeep(&mut *i) } } as i64;
                if r.rc == 0 {
                    i_error = false;
                }
                if r.rc == 0 {
                    i_called = false;
                }
            }
            Op::ICopyBack => {
                let mut c = Box::new(zs_for::<A>());
                r.rc = unsafe { A::inflateCopy(&mut *c, &mut *i) } as i64;
                if r.rc == 0 {
                    unsafe { A::inflateEnd(&mut *i) };
                    i = c;
                }
            }
            Op::IEnd => {
                r.rc = unsafe { A::inflateEnd(&mut *i) } as i64;
            }
            Op::ISetDict { len, null } => {
                r.rc = unsafe { A::inflateSetDictionary(&mut *i, if *null { core::ptr::null() } else { dictp }, *len as c_uint) } as i64;
            }
            Op::IGetDict { null_buf, null_len } => {
                let cap = 40_000;
                let bp = ar.aux[1].right(cap);
                let mut n: c_uint = 0x5555;
                r.rc = unsafe { A::inflateGetDictionary(&mut *i, if *null_buf { core::ptr::null_mut() } else { bp }, if *null_len { core::ptr::null_mut() } else { &mut n }) } as i64;
                if r.rc == 0 && !*null_len {
                    // length is not compared for windows below 32 KiB (C16), content is C13's business
                    r.info.push(n as i64);
                }
            }
            Op::IGetHeader { null } => {
                *ihead = gz_header::default();
                r.rc = unsafe { A::inflateGetHeader(&mut *i, if *null { core::ptr::null_mut() } else { &mut *ihead }) } as i64;
            }
            Op::IPrime { bits, value } => {
                if i.state.is_null() || (i_raw && !i_called) {
                    r.rc = unsafe { A::inflatePrime(&mut *i, *bits, *value) } as i64;
                } else {
                    r.rc = -999; // outside the documented use of inflatePrime: not executed
                }
            }
            Op::ISync { in_len } => {
                let start = ipos.min(p.comp.len());
                let ic = (*in_len).min(p.comp.len() - start);
                let ip = ar.inp.put_right(&p.comp[start..start + ic]);
                let s = &mut *i;
                s.next_in = ip;
                s.avail_in = ic as u32;
                r.rc = unsafe { A::inflateSync(s) } as i64;
                i_called = true;
                r.din = (ic as u32).wrapping_sub(s.avail_in);
                if r.din as usize <= ic {
                    ipos += r.din as usize;
                }
            }
            Op::ISyncPoint => {
                r.rc = unsafe { A::inflateSyncPoint(&mut *i) } as i64;
            }
            Op::IMark => {
                let v = unsafe { A::inflateMark(&mut *i) };
                r.rc = 0;
                r.info.push(v as i64);
            }
            Op::IValidate { v } => {
                r.rc = unsafe { A::inflateValidate(&mut *i, *v) } as i64;
            }
            Op::IUndermine { v } => {
                r.rc = unsafe { A::inflateUndermine(&mut *i, *v) } as i64;
            }
            Op::ICodesUsed => {
                let v = unsafe { A::inflateCodesUsed(&mut *i) };
                // the count of table entries is an implementation detail (not a status, not data movement):
                // only "error or not" is compared
                r.rc = if v == c_ulong::MAX { -1 } else { 0 };
                r.info.push(v as i64);
            }
            Op::Compress2 { n, cap, level } => {
                let ip = ar.inp.put_right(&p.data[..*n]);
                let op_ = ar.out.right(*cap);
                let mut dl = *cap as c_ulong;
                r.rc = unsafe { A::compress2(op_, &mut dl, ip, *n as c_ulong, *level) } as i64;
                if r.rc == 0 && dl as usize <= *cap {
                    r.vals.push(dl as i64);
                    r.out = unsafe { core::slice::from_raw_parts(op_, dl as usize) }.to_vec();
                }
            }
            Op::Uncompress { cap, use2 } => {
                let ip = ar.inp.put_right(&p.comp);
                let op_ = ar.out.right((*cap).max(1));
                let mut dl = *cap as c_ulong;
                let mut sl = p.comp.len() as c_ulong;
                r.rc = if *use2 { unsafe { A::uncompress2(op_, &mut dl, ip, &mut sl) } } else { unsafe { A::uncompress(op_, &mut dl, ip, sl) } } as i64;
                if dl as usize <= *cap {
                    r.vals.push(dl as i64);
                    if r.rc == 0 {
                        r.out = unsafe { core::slice::from_raw_parts(op_, dl as usize) }.to_vec();
                        if *use2 {
                            r.vals.push(sl as i64);
                        }
                    }
                }
            }
            Op::CompressBound { n } => {
                r.rc = 0;
                r.vals.push(unsafe { A::compressBound(*n as c_ulong) } as i64);
            }
            Op::Adler { start, len, null } => {
                r.rc = 0;
                let v = if A::IS_NG { unsafe { ngsys::adler32(*start as c_ulong, if *null { core::ptr::null() } else { p.data.as_ptr() }, if *null { 0 } else { *len as c_uint }) } } else { unsafe { libz_rs_sys::adler32(*start as c_ulong, if *null { core::ptr::null() } else { p.data.as_ptr() }, if *null { 0 } else { *len as c_uint }) } };
                r.vals.push(v as i64);
            }
            Op::Crc { start, len, null } => {
                r.rc = 0;
                let v = if A::IS_NG { unsafe { ngsys::crc32(*start as c_ulong, if *null { core::ptr::null() } else { p.data.as_ptr() }, if *null { 0 } else { *len as c_uint }) } } else { unsafe { libz_rs_sys::crc32(*start as c_ulong, if *null { core::ptr::null() } else { p.data.as_ptr() }, if *null { 0 } else { *len as c_uint }) } };
                r.vals.push(v as i64);
            }
            Op::NullStream { f } => {
                let n: *mut z_stream = core::ptr::null_mut();
                r.rc = unsafe {
                    match f {
                        0 => A::deflate(n, 0) as i64,
                        1 => A::deflateEnd(n) as i64,
                        2 => A::deflateReset(n) as i64,
                        3 => A::deflateParams(n, 1, 0) as i64,
                        4 => A::deflateTune(n, 1, 1, 1, 1) as i64,
                        5 => A::deflatePrime(n, 1, 1) as i64,
                        6 => A::deflateSetDictionary(n, dictp, 1) as i64,
                        7 => A::deflateCopy(n, &mut *d[0]) as i64,
                        8 => A::deflateInit2(n, 6, 8, 15, 8, 0) as i64,
                        9 => A::inflate(n, 0) as i64,
                        10 => A::inflateEnd(n) as i64,
                        11 => A::inflateReset(n) as i64,
                        12 => A::inflateReset2(n, 15) as i64,
                        13 => A::inflateInit2(n, 15) as i64,
                        14 => A::inflateSetDictionary(n, dictp, 1) as i64,
                        15 => A::inflateSync(n) as i64,
                        16 => A::inflateSyncPoint(n) as i64,
                        17 => A::inflatePrime(n, 1, 1) as i64,
                        18 => A::inflateValidate(n, 1) as i64,
                        19 => A::inflateGetHeader(n, &mut *ihead) as i64,
                        20 => A::deflateSetHeader(n, core::ptr::null_mut()) as i64,
                        21 => A::deflateResetKeep(n) as i64,
                        22 => A::inflateResetKeep(n) as i64,
                        _ => A::deflatePending(n, core::ptr::null_mut(), core::ptr::null_mut()) as i64,
                    }
                };
            }
        }
        res.push(r);
    }
    for k in 0..2 {
        if !d[k].state.is_null() {
            unsafe { A::deflateEnd(&mut *d[k]) };
        }
    }
    if !i.state.is_null() {
        unsafe { A::inflateEnd(&mut *i) };
    }
    drop(holds);
    Exec { res, d_out, i_out }
}

/// run `f` in a forked child; true if the child exited normally (no signal)
pub fn survives(f: impl FnOnce()) -> bool {
    unsafe {
        let pid = libc::fork();
        if pid < 0 {
            // no pre-screen possible (fork refused, e.g. under memory pressure in sanitizer builds): never run the
            // reference unprotected - a zlib-ng crash in this process would look like a zlib-rs finding
            return false;
        }
        if pid == 0 {
            // child: default signal dispositions (under libFuzzer / AddressSanitizer the inherited handlers would
            // turn a zlib-ng crash in this pre-screen child into a saved "crash artifact"), silence output, bound the time
            for sig in [libc::SIGSEGV, libc::SIGBUS, libc::SIGABRT, libc::SIGILL, libc::SIGFPE, libc::SIGALRM, libc::SIGTERM, libc::SIGINT, libc::SIGUSR1, libc::SIGUSR2] {
                libc::signal(sig, libc::SIG_DFL);
            }
            libc::alarm(20);
            let devnull = libc::open(b"/dev/null\0".as_ptr() as *const _, libc::O_WRONLY);
            if devnull >= 0 {
                libc::dup2(devnull, 1);
                libc::dup2(devnull, 2);
            }
            f();
            libc::_exit(0);
        }
        let mut status: c_int = 0;
        libc::waitpid(pid, &mut status, 0);
        libc::WIFEXITED(status) && libc::WEXITSTATUS(status) == 0
    }
}

pub fn op_name(op: &Op) -> String {
    let s = format!("{:?}", op);
    if s.len() > 160 {
        format!("{}..", &s[..160])
    } else {
        s
    }
}
