//! Shared generators: bulk data recipes, deflate configurations, decoder subjects.
use crate::api::*;
use crate::refimpl::rgen::{self, Fault, Features, GenOpts, GzFields};
use crate::refimpl::rgzh::Wrap;
use crate::tape::{Tape, Xs};
use core::ffi::c_int;

/// Bulk data from a recipe: a list of segments expanded by a pure function of tape-chosen parameters.
pub fn gen_data(t: &mut Tape, wbits: u32, max_len: usize) -> Vec<u8> {
    let w = 1usize << wbits;
    let nseg = match t.below(8) {
        0 => 0,
        1 => 1,
        2 => 1,
        _ => 1 + t.below(7),
    };
    let mut out: Vec<u8> = Vec::new();
    for _ in 0..nseg {
        if out.len() >= max_len {
            break;
        }
        let kind = t.below(10);
        let lens: [usize; 24] = [1, 2, 3, 8, 15, 16, 17, 64, 258, 259, 262, 300, 1000, w - 262, w - 261, w - 1, w, w + 1, 2 * w - 262, 2 * w, 2 * w + 263, 3 * w, 20000, 70000];
        let mut len = if t.chance(64) { t.below(5000) } else { t.pick(&lens) };
        if len > max_len - out.len() {
            len = max_len - out.len();
        }
        let seed = t.u16() as u64;
        let mut x = Xs::new(seed ^ 0xDA7A);
        match kind {
            0 => {
                let b = t.u8();
                out.extend(std::iter::repeat(b).take(len));
            }
            1 => {
                for _ in 0..len {
                    out.push((x.next() >> 32) as u8);
                }
            }
            2 => {
                // text-like: small alphabet with word repetition
                let words: Vec<Vec<u8>> = (0..8 + x.below(24)).map(|_| (0..1 + x.below(9)).map(|_| b'a' + x.below(26) as u8).collect()).collect();
                let start = out.len();
                while out.len() - start < len {
                    let wd = &words[x.below(words.len())];
                    out.extend_from_slice(wd);
                    out.push(b' ');
                }
                out.truncate(start + len);
            }
            3 => {
                // copy from distance d
                let dists = [1usize, 2, 3, 4, 258, 259, w - 262, w - 261, w - 1, w, w + 1, 32768, 32767];
                let d = t.pick(&dists);
                if out.is_empty() {
                    out.push(t.u8());
                }
                for _ in 0..len {
                    let n = out.len();
                    let b = if d <= n { out[n - d] } else { out[n % out.len().max(1)] };
                    out.push(b);
                }
            }
            4 => {
                // alphabet restricted to >= 144 (9-bit static literals)
                for _ in 0..len {
                    out.push(144 + (x.below(112)) as u8);
                }
            }
            5 => {
                for _ in 0..len {
                    out.push([0u8, 143, 144, 255][x.below(4)]);
                }
            }
            6 => {
                // random with sparse repeats: defeats stored fallback, short matches
                let start = out.len();
                while out.len() - start < len {
                    if x.below(4) == 0 && out.len() > 8 {
                        let d = 1 + x.below(out.len().min(w));
                        let l = 3 + x.below(6);
                        for _ in 0..l {
                            let n = out.len();
                            out.push(out[n - d]);
                        }
                    } else {
                        out.push((x.next() >> 32) as u8);
                    }
                }
                out.truncate(start + len);
            }
            7 => {
                let n = len.min(64);
                let b = t.bytes(n);
                out.extend_from_slice(&b);
            }
            _ => {
                // very low entropy: random letters from an alphabet of 2..4 symbols (long hash chains,
                // many equally good match candidates)
                let a = 2 + x.below(3);
                // (bounded: the slow levels spend milliseconds per KiB on such data)
                for _ in 0..len.min(16384) {
                    out.push(b'a' + x.below(a) as u8);
                }
            }
        }
    }
    out.truncate(max_len);
    out
}

#[derive(Clone, Copy, Debug, PartialEq, Eq)]
pub struct DefCfg {
    pub level: c_int,
    pub strategy: c_int,
    pub wrap: Wrap,
    pub wbits: u32, // 8..15 (magnitude)
    pub mem_level: c_int,
}

impl DefCfg {
    pub fn window_bits_arg(&self) -> c_int {
        match self.wrap {
            Wrap::Raw => -(self.wbits as c_int),
            Wrap::Zlib => self.wbits as c_int,
            Wrap::Gzip => self.wbits as c_int + 16,
        }
    }
    /// effective window bits (deflate turns 8 into 9)
    pub fn eff_wbits(&self) -> u32 {
        if self.wbits == 8 {
            9
        } else {
            self.wbits
        }
    }
    pub fn describe(&self) -> String {
        format!("level={} strategy={} wrap={:?} wbits={} memLevel={}", self.level, self.strategy, self.wrap, self.wbits, self.mem_level)
    }
    pub fn inflate_bits(&self) -> c_int {
        match self.wrap {
            Wrap::Raw => -(self.eff_wbits() as c_int),
            Wrap::Zlib => self.eff_wbits() as c_int,
            Wrap::Gzip => self.eff_wbits() as c_int + 16,
        }
    }
}

/// valid by construction (raw/gzip windowBits 8 is rejected by init and belongs to C16)
pub fn gen_cfg(t: &mut Tape) -> DefCfg {
    let level = t.pick(&[-1, 0, 1, 2, 3, 4, 5, 6, 7, 8, 9, 1, 6, 9]);
    let strategy = t.pick(&[0, 0, 0, 1, 2, 3, 4]);
    let wrap = t.pick(&[Wrap::Raw, Wrap::Zlib, Wrap::Gzip, Wrap::Zlib]);
    let wb: &[u32] = if wrap == Wrap::Zlib { &[8, 9, 9, 10, 11, 12, 13, 14, 15, 15, 9, 10] } else { &[9, 9, 10, 11, 12, 13, 14, 15, 15, 9, 10] };
    let wbits = t.pick(wb);
    let mem_level = t.pick(&[1, 1, 2, 3, 4, 5, 6, 7, 8, 8, 9]);
    DefCfg { level, strategy, wrap, wbits, mem_level }
}

/// one-shot compression with `A` (used to obtain encoder output as decoder input)
pub fn deflate_oneshot<A: Z>(cfg: &DefCfg, data: &[u8], dict: Option<&[u8]>) -> Option<Vec<u8>> {
    let mut strm = zs_for::<A>();
    let rc = unsafe { A::deflateInit2(&mut strm, cfg.level, 8, cfg.window_bits_arg(), cfg.mem_level, cfg.strategy) };
    if rc != Z_OK {
        return None;
    }
    if let Some(d) = dict {
        let r = unsafe { A::deflateSetDictionary(&mut strm, d.as_ptr(), d.len() as u32) };
        if r != Z_OK {
            unsafe { A::deflateEnd(&mut strm) };
            return None;
        }
    }
    let bound = data.len() + data.len() / 8 + 1024;
    let mut out = vec![0u8; bound];
    strm.next_in = data.as_ptr();
    strm.avail_in = data.len() as u32;
    strm.next_out = out.as_mut_ptr();
    strm.avail_out = out.len() as u32;
    let rc = unsafe { A::deflate(&mut strm, Z_FINISH) };
    let n = strm.total_out as usize;
    unsafe { A::deflateEnd(&mut strm) };
    if rc != Z_STREAM_END {
        return None;
    }
    out.truncate(n);
    Some(out)
}

/// a stream made of several deflate calls: `cuts` are input positions after which `flush` is requested
/// (Z_SYNC_FLUSH / Z_FULL_FLUSH leave the 00 00 FF FF marker inflateSync searches for), Z_FINISH at the end
pub fn deflate_flushed<A: Z>(cfg: &DefCfg, data: &[u8], cuts: &[usize], flush: c_int) -> Option<Vec<u8>> {
    let mut strm = zs_for::<A>();
    let rc = unsafe { A::deflateInit2(&mut strm, cfg.level, 8, cfg.window_bits_arg(), cfg.mem_level, cfg.strategy) };
    if rc != Z_OK {
        return None;
    }
    let mut out = vec![0u8; data.len() + data.len() / 8 + 1024 + 16 * cuts.len()];
    strm.next_out = out.as_mut_ptr();
    strm.avail_out = out.len() as u32;
    let mut pos = 0usize;
    let mut ok = true;
    for &c in cuts.iter().chain(std::iter::once(&data.len())) {
        let c = c.min(data.len()).max(pos);
        strm.next_in = data[pos..].as_ptr();
        strm.avail_in = (c - pos) as u32;
        let last = c == data.len();
        let rc = unsafe { A::deflate(&mut strm, if last { Z_FINISH } else { flush }) };
        pos = c;
        if last {
            ok = rc == Z_STREAM_END;
            break;
        }
        if rc != Z_OK {
            ok = false;
            break;
        }
    }
    let n = strm.total_out as usize;
    unsafe { A::deflateEnd(&mut strm) };
    if !ok {
        return None;
    }
    out.truncate(n);
    Some(out)
}

#[derive(Clone, Debug, PartialEq, Eq)]
pub enum Label {
    /// valid by construction; expected output and exact length known
    Valid,
    /// exactly one fault injected by R-GEN
    Faulted(Fault),
    /// proper prefix of a valid stream
    Prefix,
    /// mutated valid stream: verdict unknown a priori
    Mutated(&'static str),
    /// encoder output (valid, output known)
    Encoded(&'static str),
    Noise,
}

#[derive(Clone, Debug)]
pub struct Subject {
    pub bytes: Vec<u8>,
    /// wrapper the bytes were built with
    pub wrap: Wrap,
    pub label: Label,
    /// expected output (Valid/Encoded: whole; Faulted: output before the fault; Prefix: of the full stream)
    pub out: Vec<u8>,
    /// length of the complete stream inside `bytes` (Valid/Encoded), excluding trailing garbage
    pub stream_len: usize,
    pub trailing: usize,
    pub max_dist: usize,
    /// window bits announced in a zlib header (8..15), if any
    pub announced: u32,
    pub feat: Features,
    pub gz: Option<GzFields>,
    pub body_off: usize,
    pub body_len: usize,
}

pub struct SubjectOpts {
    pub allow_noise: bool,
    pub allow_mut: bool,
    pub allow_fault: bool,
    pub allow_prefix: bool,
    pub max_out: usize,
    pub wraps: &'static [Wrap],
    pub big_gz_fields: bool,
}

impl SubjectOpts {
    pub fn all() -> Self {
        SubjectOpts { allow_noise: true, allow_mut: true, allow_fault: true, allow_prefix: true, max_out: 150_000, wraps: &[Wrap::Raw, Wrap::Zlib, Wrap::Gzip], big_gz_fields: false }
    }
}

pub fn wrap_body(t: &mut Tape, wrap: Wrap, body: &[u8], out: &[u8], need_bits: u32, big: bool) -> (Vec<u8>, u32, Option<GzFields>, usize) {
    match wrap {
        Wrap::Raw => (body.to_vec(), 15, None, 0),
        Wrap::Zlib => {
            // announce at least the needed window, or (zlib's non-strict reading) sometimes less
            let ann = if t.chance(40) { 8 + t.below(8) as u32 } else { need_bits.max(8) + t.below((16 - need_bits.max(8)) as usize) as u32 };
            let ann = ann.min(15);
            let flevel = t.below(4) as u8;
            (rgen::zlib_wrap((ann - 8) as u8, flevel, None, body, out), ann, None, 2)
        }
        Wrap::Gzip => {
            let f = rgen::gen_gz_fields(t, big);
            let h = rgen::gzip_header_bytes(&f);
            let off = h.len();
            (rgen::gzip_wrap(&f, body, out), 15, Some(f), off)
        }
    }
}

fn bits_for(dist: usize) -> u32 {
    let mut b = 8;
    while (1usize << b) < dist {
        b += 1;
    }
    b
}

/// Generate a byte string to be presented to a decoder.
pub fn gen_subject(t: &mut Tape, so: &SubjectOpts) -> Subject {
    let wrap = t.pick(so.wraps);
    let kind = t.below(16);
    let max_out = t.pick(&[200usize, 2000, 40_000, so.max_out]).min(so.max_out);
    let max_dist = t.pick(&[32768usize, 32768, 32768, 256, 512, 1024, 4096, 16384]);
    let need_bits = bits_for(max_dist);
    let noise = |t: &mut Tape| -> Subject {
        let n = t.below(64);
        let mut b = t.bytes(n);
        // make noise more likely to get past the wrapper
        if !b.is_empty() && t.bool() {
            match wrap {
                Wrap::Zlib => {
                    if b.len() >= 2 {
                        b[0] = 0x78;
                        b[1] = 0x9c;
                    }
                }
                Wrap::Gzip => {
                    let h = [0x1f, 0x8b, 8, 0, 0, 0, 0, 0, 0, 3];
                    for (i, v) in h.iter().enumerate() {
                        if i < b.len() {
                            b[i] = *v;
                        }
                    }
                }
                _ => {}
            }
        }
        Subject { bytes: b, wrap, label: Label::Noise, out: vec![], stream_len: 0, trailing: 0, max_dist: 32768, announced: 15, feat: Features::default(), gz: None, body_off: 0, body_len: 0 }
    };
    if kind == 0 && so.allow_noise {
        return noise(t);
    }
    // base: a valid stream, from R-GEN or from an encoder
    let from_encoder = kind >= 12;
    let fault = if (kind == 1 || kind == 2 || kind == 3) && so.allow_fault { t.pick(&rgen::BODY_FAULTS) } else { Fault::None };
    let (body, out, feat, faulted, enc_name): (Vec<u8>, Vec<u8>, Features, bool, &'static str);
    let mut md = max_dist;
    if from_encoder {
        let mut cfg = gen_cfg(t);
        cfg.wrap = Wrap::Raw;
        if cfg.wbits == 8 {
            cfg.wbits = 9;
        }
        let data = gen_data(t, cfg.wbits, max_out);
        let use_rs = t.bool();
        let b = if use_rs { deflate_oneshot::<Rs>(&cfg, &data, None) } else { deflate_oneshot::<Ng>(&cfg, &data, None) };
        match b {
            Some(b) => {
                body = b;
                out = data;
                feat = Features::default();
                faulted = false;
                enc_name = if use_rs { "zlib-rs deflate" } else { "zlib-ng deflate" };
                md = 1usize << cfg.wbits;
            }
            None => return noise(t),
        }
    } else {
        let go = GenOpts { max_dist, max_out, dict: &[], fault, max_blocks: 6 };
        let g = rgen::gen_raw(t, &go);
        body = g.bytes;
        out = g.out;
        feat = g.feat;
        faulted = g.faulted;
        enc_name = "";
    }
    let need_bits = if from_encoder { bits_for(md) } else { need_bits };
    let (mut bytes, announced, gz, body_off) = wrap_body(t, wrap, &body, &out, need_bits, so.big_gz_fields);
    let stream_len = bytes.len();
    let mut label = if faulted {
        Label::Faulted(fault)
    } else if from_encoder {
        Label::Encoded(enc_name)
    } else {
        Label::Valid
    };
    let mut trailing = 0;
    if !faulted {
        match kind {
            4 | 5 if so.allow_prefix && stream_len > 0 => {
                // proper prefix
                let cut = if t.bool() { t.below(stream_len) } else { stream_len - 1 - t.below(stream_len.min(12)) };
                bytes.truncate(cut);
                label = Label::Prefix;
            }
            6 | 7 | 8 if so.allow_mut => {
                let other = t.bytes(8);
                let m = rgen::mutate(t, &mut bytes, &other);
                label = Label::Mutated(m.kind);
            }
            9 | 10 => {
                // trailing garbage after a complete stream
                trailing = 1 + t.below(64);
                let g = t.bytes(trailing);
                bytes.extend_from_slice(&g);
            }
            _ => {}
        }
    }
    Subject { bytes, wrap, label, out, stream_len, trailing, max_dist: md, announced, feat, gz, body_off, body_len: body.len() }
}
