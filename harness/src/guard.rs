//! Guard-paged caller buffers and the tracking allocator (R-ALLOC).
use core::ffi::{c_uint, c_void};
use std::cell::{Cell, RefCell};
use std::collections::HashMap;

pub const PAGE: usize = 4096;

/// [PROT_NONE page][cap bytes, page rounded][PROT_NONE page]
pub struct Arena {
    base: *mut u8,
    map_len: usize,
    pub cap: usize,
}

impl Arena {
    pub fn new(cap: usize) -> Arena {
        let cap = ((cap.max(1) + PAGE - 1) / PAGE) * PAGE;
        let map_len = cap + 2 * PAGE;
        unsafe {
            let p = libc::mmap(core::ptr::null_mut(), map_len, libc::PROT_NONE, libc::MAP_PRIVATE | libc::MAP_ANONYMOUS, -1, 0);
            assert!(p != libc::MAP_FAILED, "mmap failed");
            let base = p as *mut u8;
            let r = libc::mprotect(base.add(PAGE) as *mut c_void, cap, libc::PROT_READ | libc::PROT_WRITE);
            assert!(r == 0);
            Arena { base, map_len, cap }
        }
    }
    pub fn start(&self) -> *mut u8 {
        unsafe { self.base.add(PAGE) }
    }
    pub fn end(&self) -> *mut u8 {
        unsafe { self.base.add(PAGE + self.cap) }
    }
    /// region of `len` bytes ending exactly at the trailing guard page
    pub fn right(&self, len: usize) -> *mut u8 {
        assert!(len <= self.cap);
        unsafe { self.end().sub(len) }
    }
    /// region starting right after the leading guard page
    pub fn left(&self, _len: usize) -> *mut u8 {
        self.start()
    }
    pub fn place(&self, len: usize, right: bool) -> *mut u8 {
        if right {
            self.right(len)
        } else {
            self.left(len)
        }
    }
    /// region at `off` bytes from a 64-aligned point inside the arena (for alignment twins)
    pub fn at_align(&self, off: usize, len: usize) -> *mut u8 {
        assert!(len + 128 <= self.cap);
        unsafe { self.start().add(64 + (off % 64)) }
    }
    pub fn fill(&self, v: u8) {
        unsafe { core::ptr::write_bytes(self.start(), v, self.cap) }
    }
    pub fn slice(&self, p: *const u8, len: usize) -> &[u8] {
        unsafe { core::slice::from_raw_parts(p, len) }
    }
    pub fn put_right(&self, data: &[u8]) -> *mut u8 {
        let p = self.right(data.len());
        unsafe { core::ptr::copy_nonoverlapping(data.as_ptr(), p, data.len()) };
        p
    }
    pub fn put(&self, data: &[u8], right: bool) -> *mut u8 {
        let p = self.place(data.len(), right);
        unsafe { core::ptr::copy_nonoverlapping(data.as_ptr(), p, data.len()) };
        p
    }
}

impl Drop for Arena {
    fn drop(&mut self) {
        unsafe {
            libc::munmap(self.base as *mut c_void, self.map_len);
        }
    }
}

// ------------------------------------------------------------------------------------------
// tracking allocator

/// Interior mutability throughout: the allocator callbacks reach the tracker through the `opaque` raw
/// pointer while the harness holds a reference to it, so no `&mut Tracker` may exist across an FFI call
/// (the optimiser would be free to move stores to plain fields past the call).
pub struct Tracker {
    live: RefCell<HashMap<usize, usize>>,
    /// returned pointer -> pointer malloc gave us
    raw: RefCell<HashMap<usize, usize>>,
    requests: Cell<usize>,
    frees: Cell<usize>,
    /// fail exactly this request index (0-based)
    fail_at: Cell<Option<usize>>,
    /// fail every request with index >= this
    fail_from: Cell<Option<usize>>,
    pub fill: u8,
    errors: RefCell<Vec<String>>,
    pub opaque: usize,
    failed: Cell<usize>,
}

impl Tracker {
    pub fn new(fill: u8) -> Box<Tracker> {
        let mut t = Box::new(Tracker { live: RefCell::new(HashMap::new()), raw: RefCell::new(HashMap::new()), requests: Cell::new(0), frees: Cell::new(0), fail_at: Cell::new(None), fail_from: Cell::new(None), fill, errors: RefCell::new(Vec::new()), opaque: 0, failed: Cell::new(0) });
        t.opaque = &*t as *const Tracker as usize;
        t
    }
    pub fn opaque_ptr(&self) -> *mut c_void {
        self.opaque as *mut c_void
    }
    pub fn install(&self, strm: &mut libz_rs_sys::z_stream) {
        strm.zalloc = Some(zalloc);
        strm.zfree = Some(zfree);
        strm.opaque = self.opaque_ptr();
    }
    pub fn leak_free_all(&self) {
        for (p, _) in self.live.borrow_mut().drain() {
            let raw = self.raw.borrow_mut().remove(&p).unwrap_or(p);
            unsafe { libc::free(raw as *mut c_void) };
        }
    }
    pub fn requests(&self) -> usize {
        self.requests.get()
    }
    pub fn failed(&self) -> usize {
        self.failed.get()
    }
    pub fn live_count(&self) -> usize {
        self.live.borrow().len()
    }
    pub fn first_error(&self) -> Option<String> {
        self.errors.borrow().first().cloned()
    }
    pub fn set_fail(&self, at: Option<usize>, from: Option<usize>) {
        self.fail_at.set(at);
        self.fail_from.set(from);
    }
    pub fn get_fail(&self) -> (Option<usize>, Option<usize>) {
        (self.fail_at.get(), self.fail_from.get())
    }
}

impl Drop for Tracker {
    fn drop(&mut self) {
        self.leak_free_all();
    }
}

thread_local! {
    /// the set of opaque values handed out (so the callbacks can validate `opaque` before use)
    static OPAQUES: RefCell<Vec<usize>> = RefCell::new(Vec::new());
    pub static FOREIGN_ERRORS: RefCell<Vec<String>> = RefCell::new(Vec::new());
}

pub fn register(t: &Tracker) {
    OPAQUES.with(|o| o.borrow_mut().push(t.opaque));
}
pub fn unregister(t: &Tracker) {
    OPAQUES.with(|o| o.borrow_mut().retain(|&x| x != t.opaque));
}

fn tracker_of(opaque: *mut c_void) -> Option<&'static Tracker> {
    let ok = OPAQUES.with(|o| o.borrow().contains(&(opaque as usize)));
    if ok {
        Some(unsafe { &*(opaque as *const Tracker) })
    } else {
        FOREIGN_ERRORS.with(|e| e.borrow_mut().push(format!("allocator callback received opaque {:p} that was never installed", opaque)));
        None
    }
}

pub unsafe extern "C" fn zalloc(opaque: *mut c_void, items: c_uint, size: c_uint) -> *mut c_void {
    let t = match tracker_of(opaque) {
        Some(t) => t,
        None => return core::ptr::null_mut(),
    };
    let idx = t.requests.get();
    t.requests.set(idx + 1);
    let n = (items as usize) * (size as usize);
    if t.fail_at.get() == Some(idx) || t.fail_from.get().map_or(false, |f| idx >= f) {
        t.failed.set(t.failed.get() + 1);
        return core::ptr::null_mut();
    }
    // zalloc has no alignment contract: hand out blocks at every address residue mod 64 in turn (an allocator that
    // packs blocks byte-granularly), with canary bytes directly before and after the n bytes that were asked for
    let raw = unsafe { libc::malloc(n + 3 * PAD) } as *mut u8;
    if raw.is_null() {
        return core::ptr::null_mut();
    }
    let residue = RESIDUES[idx % RESIDUES.len()];
    let base = ((raw as usize + PAD + 63) & !63) + residue;
    let p = base as *mut u8;
    debug_assert!(base + n + CANARY <= raw as usize + n + 3 * PAD);
    unsafe {
        core::ptr::write_bytes(p.sub(CANARY), 0xCB, CANARY);
        core::ptr::write_bytes(p, t.fill, n);
        core::ptr::write_bytes(p.add(n), 0xCB, CANARY);
    }
    t.live.borrow_mut().insert(p as usize, n);
    t.raw.borrow_mut().insert(p as usize, raw as usize);
    p as *mut c_void
}

const PAD: usize = 128;
const CANARY: usize = 32;
const RESIDUES: [usize; 12] = [0, 57, 16, 61, 8, 59, 1, 63, 32, 58, 60, 33];

fn canaries_ok(p: *const u8, n: usize) -> (bool, bool) {
    let before = unsafe { core::slice::from_raw_parts(p.sub(CANARY), CANARY) }.iter().all(|&b| b == 0xCB);
    let after = unsafe { core::slice::from_raw_parts(p.add(n), CANARY) }.iter().all(|&b| b == 0xCB);
    (before, after)
}

pub unsafe extern "C" fn zfree(opaque: *mut c_void, ptr: *mut c_void) {
    let t = match tracker_of(opaque) {
        Some(t) => t,
        None => return,
    };
    t.frees.set(t.frees.get() + 1);
    let removed = t.live.borrow_mut().remove(&(ptr as usize));
    match removed {
        Some(n) => {
            let (b, a) = canaries_ok(ptr as *const u8, n);
            if !b || !a {
                t.errors.borrow_mut().push(format!("the library wrote outside a block obtained from zalloc ({} bytes at address = {} mod 64): bytes directly {} the block were modified", n, ptr as usize % 64, if !a { "after" } else { "before" }));
            }
            // poison, so that use-after-free changes observable behaviour deterministically
            unsafe { core::ptr::write_bytes(ptr as *mut u8, 0xDD, n) };
            let raw = t.raw.borrow_mut().remove(&(ptr as usize)).unwrap_or(ptr as usize);
            unsafe { libc::free(raw as *mut c_void) };
        }
        None => {
            t.errors.borrow_mut().push(format!("zfree({:p}) of a block that is not live in this allocator (double free or foreign pointer)", ptr));
        }
    }
}

thread_local! {
    /// when non-zero: opaque of the tracker that `CDef::init` / `CApi::init` install into new streams
    pub static CURRENT: std::cell::Cell<usize> = std::cell::Cell::new(0);
}

pub fn install_current(strm: &mut libz_rs_sys::z_stream) {
    let cur = CURRENT.with(|c| c.get());
    if cur != 0 {
        strm.zalloc = Some(zalloc);
        strm.zfree = Some(zfree);
        strm.opaque = cur as *mut c_void;
    }
}

/// run `f` with `t` installed as the allocator of every stream the interpreters create
pub fn with_tracker<R>(t: &Tracker, f: impl FnOnce() -> R) -> R {
    register(t);
    let old = CURRENT.with(|c| c.replace(t.opaque));
    let r = f();
    CURRENT.with(|c| c.set(old));
    unregister(t);
    r
}
