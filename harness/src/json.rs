//! Minimal JSON value + writer (no external crates).
use std::collections::BTreeMap;

#[derive(Clone, Debug)]
pub enum J {
    Null,
    B(bool),
    I(i64),
    U(u64),
    F(f64),
    S(String),
    A(Vec<J>),
    O(Vec<(String, J)>),
}

impl J {
    pub fn s<T: Into<String>>(v: T) -> J {
        J::S(v.into())
    }
    pub fn obj() -> J {
        J::O(Vec::new())
    }
    pub fn set<T: Into<String>>(mut self, k: T, v: J) -> J {
        if let J::O(ref mut m) = self {
            m.push((k.into(), v));
        }
        self
    }
    pub fn put<T: Into<String>>(&mut self, k: T, v: J) {
        if let J::O(ref mut m) = self {
            m.push((k.into(), v));
        }
    }
    pub fn from_map(m: &BTreeMap<String, u64>) -> J {
        J::O(m.iter().map(|(k, v)| (k.clone(), J::U(*v))).collect())
    }
    pub fn hex(b: &[u8]) -> J {
        J::S(hex(b))
    }
    pub fn to_string(&self) -> String {
        let mut s = String::new();
        self.write(&mut s);
        s
    }
    fn write(&self, o: &mut String) {
        match self {
            J::Null => o.push_str("null"),
            J::B(b) => o.push_str(if *b { "true" } else { "false" }),
            J::I(i) => o.push_str(&i.to_string()),
            J::U(u) => o.push_str(&u.to_string()),
            J::F(f) => {
                if f.is_finite() {
                    o.push_str(&format!("{:.3}", f))
                } else {
                    o.push_str("null")
                }
            }
            J::S(s) => esc(s, o),
            J::A(a) => {
                o.push('[');
                for (i, v) in a.iter().enumerate() {
                    if i > 0 {
                        o.push(',');
                    }
                    v.write(o);
                }
                o.push(']');
            }
            J::O(m) => {
                o.push('{');
                for (i, (k, v)) in m.iter().enumerate() {
                    if i > 0 {
                        o.push(',');
                    }
                    esc(k, o);
                    o.push(':');
                    v.write(o);
                }
                o.push('}');
            }
        }
    }
}

fn esc(s: &str, o: &mut String) {
    o.push('"');
    for c in s.chars() {
        match c {
            '"' => o.push_str("\\\""),
            '\\' => o.push_str("\\\\"),
            '\n' => o.push_str("\\n"),
            '\r' => o.push_str("\\r"),
            '\t' => o.push_str("\\t"),
            c if (c as u32) < 0x20 => o.push_str(&format!("\\u{:04x}", c as u32)),
            c => o.push(c),
        }
    }
    o.push('"');
}

pub fn hex(b: &[u8]) -> String {
    let mut s = String::with_capacity(b.len() * 2);
    for x in b {
        s.push_str(&format!("{:02x}", x));
    }
    s
}

/// hex of at most `n` leading bytes, with a length note when cut
pub fn hex_cut(b: &[u8], n: usize) -> String {
    if b.len() <= n {
        hex(b)
    } else {
        format!("{}..(+{} bytes)", hex(&b[..n]), b.len() - n)
    }
}
