//! vcheck library: engines, generators, oracles and property checks of the /verif machinery.
//! Used by the worker binary (src/main.rs) and by the libFuzzer targets in /verif/fuzz.
#![allow(clippy::all)]
#![allow(dead_code)]
extern crate libz_sys;

pub mod api;
pub mod edef;
pub mod einf;
pub mod eprog;
pub mod gen;
pub mod guard;
pub mod json;
pub mod props;
pub mod refimpl;
pub mod runner;
pub mod tape;

/// Global allocator wrapper.
/// (1) POISON: when non-zero, every new block is filled with that pattern so that a read of uninitialised library
///     memory (the gz layer allocates through the Rust global allocator) changes the observable output
///     deterministically instead of depending on heap history.
/// (2) galloc: while *armed* (only around single calls into the gz layer, on the one worker thread) every request is
///     counted, can be made to fail (fail the k-th / fail all after the k-th), and the live set of blocks obtained
///     while armed is tracked in a fixed table (no allocation inside the allocator) - the C18 oracle for the gz layer.
pub struct PoisonAlloc;
pub static POISON: std::sync::atomic::AtomicU8 = std::sync::atomic::AtomicU8::new(0);

pub mod galloc {
    use std::sync::atomic::{AtomicBool, AtomicUsize, Ordering::Relaxed};
    pub const SLOTS: usize = 1024;
    pub static ARMED: AtomicBool = AtomicBool::new(false);
    pub static REQUESTS: AtomicUsize = AtomicUsize::new(0);
    /// usize::MAX = never fail
    pub static FAIL_AT: AtomicUsize = AtomicUsize::new(usize::MAX);
    pub static FAIL_AFTER: AtomicBool = AtomicBool::new(false);
    pub static FAILED: AtomicUsize = AtomicUsize::new(0);
    pub static PTRS: [AtomicUsize; SLOTS] = [const { AtomicUsize::new(0) }; SLOTS];
    pub static SIZES: [AtomicUsize; SLOTS] = [const { AtomicUsize::new(0) }; SLOTS];
    /// frees (while armed) of blocks that were not obtained while armed
    pub static FOREIGN_FREES: AtomicUsize = AtomicUsize::new(0);
    pub static OVERFLOW: AtomicBool = AtomicBool::new(false);
    /// number of occupied slots (frees skip the table scan when it is 0)
    pub static LIVE_N: AtomicUsize = AtomicUsize::new(0);

    pub fn reset(fail_at: Option<usize>, fail_after: bool) {
        ARMED.store(false, Relaxed);
        REQUESTS.store(0, Relaxed);
        FAILED.store(0, Relaxed);
        FOREIGN_FREES.store(0, Relaxed);
        OVERFLOW.store(false, Relaxed);
        LIVE_N.store(0, Relaxed);
        FAIL_AT.store(fail_at.unwrap_or(usize::MAX), Relaxed);
        FAIL_AFTER.store(fail_after, Relaxed);
        for i in 0..SLOTS {
            PTRS[i].store(0, Relaxed);
            SIZES[i].store(0, Relaxed);
        }
    }
    #[inline]
    pub fn arm() {
        ARMED.store(true, Relaxed);
    }
    #[inline]
    pub fn disarm() {
        ARMED.store(false, Relaxed);
    }
    pub fn live() -> (usize, usize) {
        let (mut n, mut b) = (0, 0);
        for i in 0..SLOTS {
            if PTRS[i].load(Relaxed) != 0 {
                n += 1;
                b += SIZES[i].load(Relaxed);
            }
        }
        (n, b)
    }
    pub fn requests() -> usize {
        REQUESTS.load(Relaxed)
    }
    pub fn failed() -> usize {
        FAILED.load(Relaxed)
    }
    pub fn foreign_frees() -> usize {
        FOREIGN_FREES.load(Relaxed)
    }
    pub fn overflow() -> bool {
        OVERFLOW.load(Relaxed)
    }
    /// called by the allocator: true = make this request fail
    pub(crate) fn on_request() -> bool {
        let k = REQUESTS.fetch_add(1, Relaxed);
        let at = FAIL_AT.load(Relaxed);
        let fail = at != usize::MAX && (k == at || (FAIL_AFTER.load(Relaxed) && k > at));
        if fail {
            FAILED.fetch_add(1, Relaxed);
        }
        fail
    }
    pub(crate) fn on_alloc(p: usize, size: usize) {
        for i in 0..SLOTS {
            if PTRS[i].load(Relaxed) == 0 {
                PTRS[i].store(p, Relaxed);
                SIZES[i].store(size, Relaxed);
                LIVE_N.fetch_add(1, Relaxed);
                return;
            }
        }
        OVERFLOW.store(true, Relaxed);
    }
    /// true if the block was in the live set
    #[inline]
    pub(crate) fn on_free(p: usize) -> bool {
        if LIVE_N.load(Relaxed) == 0 {
            return false;
        }
        for i in 0..SLOTS {
            if PTRS[i].load(Relaxed) == p {
                PTRS[i].store(0, Relaxed);
                LIVE_N.fetch_sub(1, Relaxed);
                return true;
            }
        }
        false
    }
}

unsafe impl std::alloc::GlobalAlloc for PoisonAlloc {
    unsafe fn alloc(&self, l: std::alloc::Layout) -> *mut u8 {
        let armed = galloc::ARMED.load(std::sync::atomic::Ordering::Relaxed);
        if armed && galloc::on_request() {
            return core::ptr::null_mut();
        }
        let p = unsafe { std::alloc::System.alloc(l) };
        let v = POISON.load(std::sync::atomic::Ordering::Relaxed);
        if v != 0 && !p.is_null() {
            unsafe { core::ptr::write_bytes(p, v, l.size()) };
        }
        if armed && !p.is_null() {
            galloc::on_alloc(p as usize, l.size());
        }
        p
    }
    unsafe fn dealloc(&self, p: *mut u8, l: std::alloc::Layout) {
        if !galloc::on_free(p as usize) && galloc::ARMED.load(std::sync::atomic::Ordering::Relaxed) {
            galloc::FOREIGN_FREES.fetch_add(1, std::sync::atomic::Ordering::Relaxed);
        }
        unsafe { std::alloc::System.dealloc(p, l) }
    }
    unsafe fn alloc_zeroed(&self, l: std::alloc::Layout) -> *mut u8 {
        let armed = galloc::ARMED.load(std::sync::atomic::Ordering::Relaxed);
        if armed && galloc::on_request() {
            return core::ptr::null_mut();
        }
        let p = unsafe { std::alloc::System.alloc_zeroed(l) };
        if armed && !p.is_null() {
            galloc::on_alloc(p as usize, l.size());
        }
        p
    }
    unsafe fn realloc(&self, p: *mut u8, l: std::alloc::Layout, n: usize) -> *mut u8 {
        let armed = galloc::ARMED.load(std::sync::atomic::Ordering::Relaxed);
        if armed && galloc::on_request() {
            return core::ptr::null_mut();
        }
        let was_tracked = galloc::on_free(p as usize);
        let q = unsafe { std::alloc::System.realloc(p, l, n) };
        if q.is_null() {
            if was_tracked {
                galloc::on_alloc(p as usize, l.size());
            }
        } else if was_tracked || armed {
            galloc::on_alloc(q as usize, n);
        }
        q
    }
}

use std::collections::HashSet;

pub fn known_sigs(id: &str) -> HashSet<String> {
    let mut s = HashSet::new();
    let path = std::env::var("VERIF_KNOWN").unwrap_or_else(|_| "/verif/KNOWN_FINDINGS.txt".into());
    if let Ok(txt) = std::fs::read_to_string(path) {
        for l in txt.lines() {
            let l = l.trim();
            if !l.starts_with("known:") {
                continue;
            }
            let mut pid = "";
            let mut sig = "";
            for w in l.split_whitespace() {
                if let Some(v) = w.strip_prefix("property=") {
                    pid = v;
                }
                if let Some(v) = w.strip_prefix("sig=") {
                    sig = v;
                }
            }
            if pid == id && !sig.is_empty() {
                s.insert(sig.to_string());
            }
        }
    }
    s
}


/// malloc tuning shared by the worker binary and the fuzz targets: keep large Vec allocations on the heap
/// (no mmap/munmap churn per case)
pub fn tune_malloc() {
    unsafe {
        libc::mallopt(libc::M_MMAP_THRESHOLD, 32 << 20);
        libc::mallopt(libc::M_TRIM_THRESHOLD, 512 << 20);
        libc::mallopt(libc::M_TOP_PAD, 64 << 20);
    }
}

pub mod fuzz {
    //! entry point of the coverage-guided targets: the fuzz input is the tape of the property's generated phase
    use crate::runner::*;
    use std::collections::HashSet;
    pub struct Target {
        pub prop: Property,
        pub ctx: Ctx,
        pub phase: usize,
    }
    pub fn target(id: &str) -> Target {
        crate::tune_malloc();
        let prop = crate::props::get(id).unwrap_or_else(|| {
            eprintln!("unknown property {}", id);
            std::process::exit(2)
        });
        let phase = prop.phases.iter().position(|p| matches!(p, Phase::Prop { .. })).unwrap_or(0);
        // VERIF_FUZZ_STRICT=1: listed known findings are failures too (replay of a single artifact)
        let known = if std::env::var("VERIF_FUZZ_STRICT").is_ok() { HashSet::new() } else { crate::known_sigs(id) };
        let ctx = Ctx { tier: Tier::Thorough, want_sample: false, known, replay: true, worker: 0, nworkers: 1, seed: 1, variant: "fuzz".into() };
        Target { prop, ctx, phase }
    }
    /// run one tape; a property failure prints `VERIF-VIOLATION` and aborts (libFuzzer saves the artifact)
    pub fn one(t: &Target, data: &[u8]) {
        let max = match &t.prop.phases[t.phase] {
            Phase::Prop { max_tape, .. } => *max_tape,
            _ => 4096,
        };
        let data = &data[..data.len().min(max)];
        let o = replay_case(&t.prop, &t.ctx, t.phase, data);
        if let Some(m) = &o.internal {
            eprintln!("VERIF-INTERNAL {}", m);
            return;
        }
        if let Some(f) = o.fail {
            eprintln!("VERIF-VIOLATION property={} sig={} msg={}", t.prop.id, f.sig, f.msg);
            std::process::abort();
        }
    }
}
