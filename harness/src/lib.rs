//! vcheck library: engines, generators, oracles and property checks of the /verif machinery.
//! Used by the worker binary (src/main.rs) and by the libFuzzer targets in /verif/fuzz.
#![allow(clippy::all)]
#![allow(dead_code)]
extern crate libz_sys;

pub mod api;
pub mod edef;
pub mod einf;
pub mod eprog;
pub mod gen;
pub mod guard;
pub mod json;
pub mod props;
pub mod refimpl;
pub mod runner;
pub mod tape;

/// Global allocator wrapper: when armed, every new block is filled with a non-zero pattern so that a read of
/// uninitialised library memory (the gz layer allocates through the Rust global allocator) changes the
/// observable output deterministically instead of depending on heap history.
pub struct PoisonAlloc;
pub static POISON: std::sync::atomic::AtomicU8 = std::sync::atomic::AtomicU8::new(0);
unsafe impl std::alloc::GlobalAlloc for PoisonAlloc {
    unsafe fn alloc(&self, l: std::alloc::Layout) -> *mut u8 {
        let p = unsafe { std::alloc::System.alloc(l) };
        let v = POISON.load(std::sync::atomic::Ordering::Relaxed);
        if v != 0 && !p.is_null() {
            unsafe { core::ptr::write_bytes(p, v, l.size()) };
        }
        p
    }
    unsafe fn dealloc(&self, p: *mut u8, l: std::alloc::Layout) {
        unsafe { std::alloc::System.dealloc(p, l) }
    }
    unsafe fn alloc_zeroed(&self, l: std::alloc::Layout) -> *mut u8 {
        unsafe { std::alloc::System.alloc_zeroed(l) }
    }
    unsafe fn realloc(&self, p: *mut u8, l: std::alloc::Layout, n: usize) -> *mut u8 {
        unsafe { std::alloc::System.realloc(p, l, n) }
    }
}

use std::collections::HashSet;

pub fn known_sigs(id: &str) -> HashSet<String> {
    let mut s = HashSet::new();
    let path = std::env::var("VERIF_KNOWN").unwrap_or_else(|_| "/verif/KNOWN_FINDINGS.txt".into());
    if let Ok(txt) = std::fs::read_to_string(path) {
        for l in txt.lines() {
            let l = l.trim();
            if !l.starts_with("known:") {
                continue;
            }
            let mut pid = "";
            let mut sig = "";
            for w in l.split_whitespace() {
                if let Some(v) = w.strip_prefix("property=") {
                    pid = v;
                }
                if let Some(v) = w.strip_prefix("sig=") {
                    sig = v;
                }
            }
            if pid == id && !sig.is_empty() {
                s.insert(sig.to_string());
            }
        }
    }
    s
}


/// malloc tuning shared by the worker binary and the fuzz targets: keep large Vec allocations on the heap
/// (no mmap/munmap churn per case)
pub fn tune_malloc() {
    unsafe {
        libc::mallopt(libc::M_MMAP_THRESHOLD, 32 << 20);
        libc::mallopt(libc::M_TRIM_THRESHOLD, 512 << 20);
        libc::mallopt(libc::M_TOP_PAD, 64 << 20);
    }
}

pub mod fuzz {
    //! entry point of the coverage-guided targets: the fuzz input is the tape of the property's generated phase
    use crate::runner::*;
    use std::collections::HashSet;
    pub struct Target {
        pub prop: Property,
        pub ctx: Ctx,
        pub phase: usize,
    }
    pub fn target(id: &str) -> Target {
        crate::tune_malloc();
        let prop = crate::props::get(id).unwrap_or_else(|| {
            eprintln!("unknown property {}", id);
            std::process::exit(2)
        });
        let phase = prop.phases.iter().position(|p| matches!(p, Phase::Prop { .. })).unwrap_or(0);
        // VERIF_FUZZ_STRICT=1: listed known findings are failures too (replay of a single artifact)
        let known = if std::env::var("VERIF_FUZZ_STRICT").is_ok() { HashSet::new() } else { crate::known_sigs(id) };
        let ctx = Ctx { tier: Tier::Thorough, want_sample: false, known, replay: true, worker: 0, nworkers: 1, seed: 1, variant: "fuzz".into() };
        Target { prop, ctx, phase }
    }
    /// run one tape; a property failure prints `VERIF-VIOLATION` and aborts (libFuzzer saves the artifact)
    pub fn one(t: &Target, data: &[u8]) {
        let max = match &t.prop.phases[t.phase] {
            Phase::Prop { max_tape, .. } => *max_tape,
            _ => 4096,
        };
        let data = &data[..data.len().min(max)];
        let o = replay_case(&t.prop, &t.ctx, t.phase, data);
        if let Some(m) = &o.internal {
            eprintln!("VERIF-INTERNAL {}", m);
            return;
        }
        if let Some(f) = o.fail {
            eprintln!("VERIF-VIOLATION property={} sig={} msg={}", t.prop.id, f.sig, f.msg);
            std::process::abort();
        }
    }
}
