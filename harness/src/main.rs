//! vcheck — worker binary of the /verif machinery.
//!   vcheck run <ID> --tier quick|thorough --seed N --worker i --nworkers W --out FILE --journal FILE [--phase k]
//!   vcheck replay <ID> <replay-file>     exit 0 = passes, 1 = fails (prints FAIL sig=.. msg=..), 3 = known finding
//!   vcheck list
#![allow(clippy::all)]
#![allow(dead_code)]
extern crate libz_sys;
use vcheck::runner::*;
use vcheck::{known_sigs, props, refimpl, PoisonAlloc};
use std::collections::HashSet;

#[global_allocator]
static GLOBAL: PoisonAlloc = PoisonAlloc;

fn arg(args: &[String], name: &str) -> Option<String> {
    args.iter().position(|a| a == name).and_then(|i| args.get(i + 1).cloned())
}

fn main() {
    vcheck::tune_malloc();
    let args: Vec<String> = std::env::args().collect();
    if args.len() < 2 {
        eprintln!("usage: vcheck run|replay|list ...");
        std::process::exit(2);
    }
    // a panic inside harness code must not look like a clean exit
    match args[1].as_str() {
        "list" => {
            for p in props::all() {
                let (mut ph, mut mt) = (0usize, 0usize);
                for (i, x) in p.phases.iter().enumerate() {
                    if let Phase::Prop { max_tape, .. } = x {
                        ph = i;
                        mt = *max_tape;
                    }
                }
                println!("{} prop_phase={} max_tape={}", p.id, ph, mt);
            }
        }
        "run" => {
            let id = args[2].clone();
            let prop = props::get(&id).unwrap_or_else(|| {
                eprintln!("unknown property {}", id);
                std::process::exit(2)
            });
            let tier = if arg(&args, "--tier").as_deref() == Some("thorough") { Tier::Thorough } else { Tier::Quick };
            let seed: u64 = arg(&args, "--seed").and_then(|s| s.parse().ok()).unwrap_or(1);
            let worker: usize = arg(&args, "--worker").and_then(|s| s.parse().ok()).unwrap_or(0);
            let nworkers: usize = arg(&args, "--nworkers").and_then(|s| s.parse().ok()).unwrap_or(1);
            let out = arg(&args, "--out").expect("--out");
            let journal = arg(&args, "--journal").unwrap_or_else(|| format!("{}.journal", out));
            let phase: Option<usize> = arg(&args, "--phase").and_then(|s| s.parse().ok());
            let variant = arg(&args, "--variant").unwrap_or_else(|| "ref".into());
            let mut ctx = Ctx { tier, want_sample: true, known: known_sigs(&id), replay: false, worker, nworkers, seed, variant };
            let j = Journal::open(&journal);
            let t0 = std::time::Instant::now();
            let rr = run_property(&prop, &mut ctx, &j, phase);
            let wall = t0.elapsed().as_secs_f64();
            let mut rp = None;
            if let Some((ph, tape, fl)) = &rr.fail {
                let p = format!("{}.replay", out);
                write_replay(&p, prop.id, *ph, tape);
                println!("FAIL sig={} msg={}", fl.sig, fl.msg);
                rp = Some(p);
            }
            write_result(&out, &prop, &ctx, &rr, rp.as_deref(), wall);
            std::process::exit(if rr.fail.is_some() { 1 } else { 0 });
        }
        "replay" => {
            let id = args[2].clone();
            let prop = props::get(&id).unwrap_or_else(|| {
                eprintln!("unknown property {}", id);
                std::process::exit(2)
            });
            let (rid, ph, tape) = read_replay(&args[3]).unwrap_or_else(|| {
                eprintln!("cannot read replay file {}", args[3]);
                std::process::exit(2)
            });
            if rid != id {
                eprintln!("replay file is for {}, not {}", rid, id);
                std::process::exit(2);
            }
            let strict_known = args.iter().any(|a| a == "--ignore-known");
            let ctx = Ctx {
                tier: Tier::Quick,
                want_sample: true,
                known: if strict_known { HashSet::new() } else { known_sigs(&id) },
                replay: true,
                worker: 0,
                nworkers: 1,
                seed: 1,
                // the variant decides e.g. which CPU-feature masks are legal in this build
                variant: arg(&args, "--variant").unwrap_or_else(|| "ref".into()),
            };
            let o = replay_case(&prop, &ctx, ph, &tape);
            if let Some(s) = &o.sample {
                println!("CASE {}", s.to_string());
            }
            if let Some(d) = o.digest {
                println!("DIGEST {:#018x}", d);
            }
            if let Some(m) = &o.internal {
                println!("INTERNAL-ERROR {}", m);
                std::process::exit(2);
            }
            if let Some(f) = o.fail {
                println!("FAIL sig={} msg={}", f.sig, f.msg);
                std::process::exit(1);
            }
            if !o.known.is_empty() {
                println!("KNOWN sig={}", o.known.join(","));
                std::process::exit(3);
            }
            println!("PASS");
        }
        "rdec" => {
            // vcheck rdec <hex> raw|zlib|gzip : decode with the reference decoder and print the block structure
            let hexs = &args[2];
            let bytes: Vec<u8> = (0..hexs.len() / 2).map(|i| u8::from_str_radix(&hexs[2 * i..2 * i + 2], 16).unwrap()).collect();
            let wrap = match args.get(3).map(|s| s.as_str()) {
                Some("zlib") => refimpl::rgzh::Wrap::Zlib,
                Some("gzip") => refimpl::rgzh::Wrap::Gzip,
                _ => refimpl::rgzh::Wrap::Raw,
            };
            let r = refimpl::rgzh::decode_stream(&bytes, wrap, 15, &refimpl::rdec::DecOpts::lenient());
            println!("verdict {:?} consumed {} out {} bytes", r.verdict, r.consumed, r.out.len());
            if let Some(b) = &r.body {
                for k in &b.blocks {
                    println!("  block type {} last {} start_bit {} lits {} matches {} out {}..{} litmax {} distmax {}", k.btype, k.last, k.start_bit, k.literals, k.matches, k.out_start, k.out_end, k.lit_max_len, k.dist_max_len);
                }
                println!("  end_bit {} max_distance {}", b.end_bit, b.max_distance);
            }
        }
        "journal" => {
            // vcheck journal <ID> <journal-file> <out-replay-file>
            match read_journal(&args[3]) {
                Some((ph, tape)) => {
                    write_replay(&args[4], &args[2], ph, &tape);
                    println!("journal: phase {} tape {} bytes", ph, tape.len());
                }
                None => {
                    println!("journal: empty");
                    std::process::exit(4);
                }
            }
        }
        _ => {
            eprintln!("unknown command");
            std::process::exit(2);
        }
    }
}
