//! C01 — lossless round trip for every input, configuration and call schedule.
use crate::api::*;
use crate::edef::*;
use crate::einf::*;
use crate::json::{hex_cut, J};
use crate::runner::*;
use crate::tape::{Fp, Tape};

pub const RULE: &str = "tape -> DeflateConfig (level -1..9, 5 strategies, raw/zlib/gzip, windowBits 8..15, memLevel 1..9; biased to small windows and memLevels) x data recipe (runs, incompressible, text, copies at distances 1/258/w-262/w-261/w/32768, alphabets >=144, lengths around w, 2w+-262, up to ~9 windows) x legal deflate schedule (per-call in/out chunks from 0/1 up to 400000, flushes NO/PARTIAL/SYNC/FULL/BLOCK with the repeat-until-complete rule, mid-stream deflateParams to any level/strategy, deflateTune, Finish loop with 1-byte / starved / ample output) on libz_rs_sys, zlib_rs::Deflate and compress_slice. Oracle: zlib-rs inflate (one call and a generated chunk schedule) returns exactly the input, ends with STREAM_END and total_in == compressed length. Non-trivial = input >= 1 byte and (>= 2 data-moving deflate calls, or window slid, or symbol buffer filled, or a successful params switch after data was consumed, or an >= 8 call stretch of 1-byte output); distinct by (config, data, schedule).";

pub fn roundtrip_check(what: &str, plan: &DefPlan, comp: &[u8], sched: &InfSchedule, ar: &Arenas) -> Option<(String, String)> {
    let mut io = InfOpts::new(plan.cfg.inflate_bits());
    io.dict = plan.dict.as_deref();
    for (k, sc) in [&InfSchedule::one_shot(), sched].iter().enumerate() {
        let r = run_inflate::<Rs>(comp, sc, &io, ar);
        if r.status == Status::CallLimit {
            continue;
        }
        let which = if k == 0 { "one call" } else { "chunked" };
        if r.status != Status::StreamEnd {
            return Some((format!("roundtrip/{}", status_name(r.status)), format!("{}: inflate ({}) of the {} compressed bytes ended with {} (msg {:?}) after {} of {} output bytes; {}", what, which, comp.len(), status_name(r.status), r.msg, r.out.len(), plan.data.len(), plan.cfg.describe())));
        }
        if r.out != plan.data {
            let at = r.out.iter().zip(plan.data.iter()).position(|(a, b)| a != b).unwrap_or(r.out.len().min(plan.data.len()));
            return Some(("roundtrip/data-differs".into(), format!("{}: inflate ({}) returned {} bytes, input was {} bytes, first difference at {}; {}", what, which, r.out.len(), plan.data.len(), at, plan.cfg.describe())));
        }
        if r.total_in != comp.len() as u64 {
            return Some(("roundtrip/total_in".into(), format!("{}: STREAM_END consumed {} of the {} compressed bytes; {}", what, r.total_in, comp.len(), plan.cfg.describe())));
        }
    }
    None
}

pub fn classify(o: &mut Outcome, plan: &DefPlan, run: &DefRun) -> bool {
    let w = 1usize << plan.cfg.eff_wbits();
    let lit_bufsize = 1usize << (plan.cfg.mem_level + 6);
    let moving = run.calls.iter().filter(|c| (c.kind == 0 || c.kind == 3) && (c.din > 0 || c.dout > 0)).count();
    let slid = plan.data.len() > 2 * w - 262;
    let symfull = plan.data.len() >= lit_bufsize;
    let switch_after_data = run.switches.iter().any(|s| s.rc == Z_OK && s.at_in > 0 && s.at_in < plan.data.len());
    let starved = run.one_byte_stretch >= 8;
    if moving >= 2 {
        o.class(">=2 data-moving calls");
    }
    if slid {
        o.class("window slid");
    }
    if symfull {
        o.class("symbol buffer filled");
    }
    if switch_after_data {
        o.class("params switch mid-stream");
    }
    if run.switches.iter().any(|s| s.rc == Z_BUF_ERROR) {
        o.class("params returned BUF_ERROR");
    }
    if starved {
        o.class(">=8 calls of 1-byte output");
    }
    if !run.flush_points.is_empty() {
        o.class("has completed flush");
    }
    o.class(match plan.cfg.level {
        0 => "level 0 (stored)",
        1 => "level 1 (quick)",
        2 => "level 2 (fast)",
        3..=6 | -1 => "level 3-6 (medium)",
        _ => "level 7-9 (slow)",
    });
    !plan.data.is_empty() && (moving >= 2 || slid || symfull || switch_after_data || starved)
}

pub fn sample(plan: &DefPlan, run: &DefRun, api: &str) -> J {
    J::obj()
        .set("api", J::s(api))
        .set("config", J::s(plan.cfg.describe()))
        .set("input_len", J::U(plan.data.len() as u64))
        .set("input_head", J::s(hex_cut(&plan.data, 24)))
        .set("schedule", J::s(plan.describe_ops()))
        .set("calls", J::U(run.ncalls as u64))
        .set("compressed_len", J::U(run.out.len() as u64))
        .set("flush_points", J::U(run.flush_points.len() as u64))
        .set("params_switches", J::A(run.switches.iter().take(6).map(|s| J::s(format!("@{} L{} S{} -> {}", s.at_in, s.level, s.strategy, rc_name(s.rc)))).collect()))
}

pub fn case(tape: &[u8], ctx: &Ctx) -> Outcome {
    let mut o = Outcome::new();
    let (tape, copy) = split_copy_suffix(tape);
    let mut t = Tape::new(tape);
    let mut po = PlanOpts::standard();
    po.tune_table_domain = true;
    let mut plan = gen_plan(&mut t, &po);
    if let Some(b) = copy {
        apply_copy(&mut plan, b);
        o.class("session with deflateCopy-and-continue");
    }
    let plan = plan;
    let api = t.below(8);
    let sched = gen_inf_schedule(&mut t);
    if std::env::var("VERIF_DEBUG").is_ok() {
        eprintln!("plan: {} data={} gz={:?} dict={:?} {}", plan.cfg.describe(), plan.data.len(), plan.gz, plan.dict.as_ref().map(|d| d.len()), plan.describe_ops());
    }
    ARENAS.with(|ar| {
        let (run, api_name) = if api == 0 {
            let mut p2 = plan.clone();
            p2.gz = None;
            (run_deflate_with::<RustDef>(&p2, ar), "zlib_rs::Deflate")
        } else {
            (run_deflate::<Rs>(&plan, ar), "libz_rs_sys")
        };
        if run.init_rc != Z_OK {
            o.fail("init/status", format!("deflateInit2 rejected a valid configuration ({}): {}", plan.cfg.describe(), run.init_rc));
            return;
        }
        if !run.finished {
            // the session did not complete: that is C06's business (never aborts / makes progress)
            o.class("session did not finish (see C06)");
            return;
        }
        if let Some((sig, msg)) = roundtrip_check(api_name, &plan, &run.out, &sched, ar) {
            o.fail(sig, format!("{} [{}]", msg, plan.describe_ops()));
            return;
        }
        // one-shot helper
        if api == 1 && plan.data.len() < 100_000 {
            let cfg = rust_config(&plan.cfg);
            let cap = zlib_rs::compress_bound(plan.data.len()) + 64 + plan.data.len() / 100 + 18;
            let mut buf = vec![0u8; cap];
            let (c, rc) = zlib_rs::compress_slice(&mut buf, &plan.data, cfg);
            if rc as i32 == Z_OK {
                let c = c.to_vec();
                if let Some((sig, msg)) = roundtrip_check("compress_slice", &plan, &c, &sched, ar) {
                    o.fail(format!("compress_slice/{}", sig), msg);
                    return;
                }
                o.class("compress_slice one-shot");
            }
        }
        if api == 0 {
            o.class("api: zlib_rs::Deflate");
        }
        if classify(&mut o, &plan, &run) {
            let mut fp = Fp::new();
            fp.bytes(plan.cfg.describe().as_bytes()).bytes(&plan.data).bytes(plan.describe_ops().as_bytes()).add(api as u64);
            o.nontrivial = Some(fp.0);
            if ctx.want_sample {
                o.sample = Some(sample(&plan, &run, api_name));
            }
        }
    });
    o
}

pub fn property() -> Property {
    Property { id: "C01", rule: RULE, phases: vec![Phase::Prop { name: "deflate sessions -> inflate", f: case, quick: 250_000, thorough: 4_000_000, max_tape: 320 }] }
}
