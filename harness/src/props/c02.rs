//! C02 — decompressing untrusted bytes is memory-safe, never aborts, and terminates.
use crate::api::*;
use crate::einf::*;
use crate::gen::*;
use crate::json::{hex_cut, J};
use crate::refimpl::rgzh::Wrap;
use crate::runner::*;
use crate::tape::{Fp, Tape};
use core::ffi::{c_int, c_ulong};

pub const RULE: &str = "tape -> byte string (noise with plausible headers, mutations of R-GEN / encoder streams, single-fault streams, prefixes, valid streams) x any windowBits accepted by inflateInit2 {-15..-8, 0, 8..15, 24..31, 40..47} (NOT restricted to windows that fit the stream) x schedule with 0/1-byte buffers x entry point {inflate, zlib_rs::Inflate, inflateGetHeader with capture capacities {NULL,0,1,..} on a fresh stream or on one reused (other bytes, abandoned anywhere, inflateReset), uncompress, uncompress2, decompress_slice, inflateBack (1 case in 8: C19's engine with guard-paged window, callback slices and abort points; only its safety oracles count here)}. Every caller buffer sits between PROT_NONE guard pages (input and output end exactly at the guard). Oracle: worker survives (no signal/abort/panic), canaries before next_out intact, status in the documented set, call count bounded by the schedule, total_out <= 1032*total_in+1032. Non-trivial = decoder got past the wrapper and one block header and produced >= 1 byte or failed inside a block; distinct by (bytes, windowBits, schedule, entry).";

const WBITS: [c_int; 38] = [
    -15, -14, -13, -12, -11, -10, -9, -8, 0, 8, 9, 10, 11, 12, 13, 14, 15, 24, 25, 26, 27, 28, 29, 30, 31, 40, 41, 42, 43, 44, 45, 46, 47, 15, -15, 31, 47, 16,
];

/// inflateBack entry point (the statement names it): the C19 engine runs the case - guard-paged window, callback
/// slices, abort points - and only its memory-safety / documented-status / bounded-work oracles count here; the
/// "equals inflate" half is C19's business. A process death is attributed to the running check, i.e. C02.
fn back_case(tape: &[u8], ctx: &Ctx) -> Outcome {
    let mut o = crate::props::c19::case(tape, ctx);
    const SAFETY: [&str; 6] = ["inflateBack/write-outside-window", "inflateBack/out-pointer-outside-window", "inflateBack/undocumented-status", "inflateBack/in-callback-unbounded", "inflateBack/expansion-bound", "inflateBackEnd/status"];
    if let Some(f) = &o.fail {
        if !SAFETY.contains(&f.sig.as_str()) {
            o.fail = None;
        }
    }
    o.known.clear();
    o.classes = vec!["entry:inflateBack"];
    if let Some(fp) = o.nontrivial {
        o.nontrivial = Some(fp ^ 0xBAC0_BAC0);
    }
    o
}

pub fn case(tape: &[u8], ctx: &Ctx) -> Outcome {
    // one case in eight goes through inflateBack (selected by the last tape byte, the rest is the C19 tape)
    if let Some((&last, rest)) = tape.split_last() {
        if last >= 224 {
            return back_case(rest, ctx);
        }
    }
    let mut o = Outcome::new();
    let mut t = Tape::new(tape);
    let so = SubjectOpts::all();
    let s = gen_subject(&mut t, &so);
    // prefer the matching family of windowBits (gets past the wrapper), but any value is legal here
    let wbits = if t.chance(160) {
        let w = 8 + t.below(8) as c_int;
        match s.wrap {
            Wrap::Raw => -w,
            Wrap::Zlib => t.pick(&[w, 32 + w, 0, 15]),
            Wrap::Gzip => t.pick(&[16 + w, 32 + w, 31]),
        }
    } else {
        t.pick(&WBITS)
    };
    let sched = gen_inf_schedule(&mut t);
    let entry = t.below(8);
    let caps: [Option<u32>; 10] = [None, Some(0), Some(1), Some(2), Some(7), Some(20), Some(100), Some(300), Some(1000), Some(65535)];
    let cap3 = (t.pick(&caps), t.pick(&caps), t.pick(&caps));
    let mut entry_name = "inflate";
    let reuse = matches!(entry, 4 | 5) && t.chance(110);
    let pre_bytes: Vec<u8> = if reuse { gen_subject(&mut t, &so).bytes } else { Vec::new() };
    let (pre_calls, pre_in, pre_out) = (1 + t.below(3), t.pick(&[1usize, 7, 30, 100, 1000, 100_000]), t.pick(&[0usize, 1, 10, 100, 257, 5000]));
    ARENAS.with(|ar| {
        let mut io = InfOpts::new(wbits);
        io.max_out = 1 << 21;
        let r: InfRun;
        match entry {
            0 | 1 | 2 => {
                r = run_inflate::<Rs>(&s.bytes, &sched, &io, ar);
            }
            3 => {
                entry_name = "zlib_rs::Inflate::decompress";
                if matches!(wbits, 16 | 32) {
                    r = run_inflate::<Rs>(&s.bytes, &sched, &io, ar);
                } else {
                    r = run_inflate_with::<RustApi>(&s.bytes, &sched, &io, ar);
                }
            }
            4 | 5 => {
                entry_name = "inflate + inflateGetHeader";
                io.capture = Some(Capture { extra_max: cap3.0, name_max: cap3.1, comm_max: cap3.2, arenas: &ar.aux });
                // sometimes on a reused stream: part of other untrusted bytes first, abandoned anywhere, inflateReset
                if reuse {
                    io.prehistory = Some(Prehistory { bytes: &pre_bytes, calls: pre_calls, in_chunk: pre_in, out_chunk: pre_out, failed_sync: false });
                    entry_name = "inflate + inflateGetHeader on a stream reused after inflateReset";
                }
                r = run_inflate::<Rs>(&s.bytes, &sched, &io, ar);
            }
            _ => {
                // one-shot helpers on guard-paged buffers
                entry_name = if entry == 6 { "uncompress/uncompress2" } else { "decompress_slice" };
                let cap = t.pick(&[0usize, 1, 2, 100, 1000, 40000, 200000]).min(ar.out.cap - 64);
                let ip = ar.inp.put_right(&s.bytes[..s.bytes.len().min(ar.inp.cap)]);
                let ilen = s.bytes.len().min(ar.inp.cap);
                let op = ar.out.right(cap);
                ar.out.fill(0x5A);
                if entry == 6 {
                    let mut dl = cap as c_ulong;
                    let rc = unsafe { libz_rs_sys::uncompress(op, &mut dl, ip, ilen as c_ulong) };
                    if !matches!(rc, Z_OK | Z_DATA_ERROR | Z_BUF_ERROR | Z_MEM_ERROR) {
                        o.fail("uncompress/undocumented-status", format!("uncompress returned {}", rc));
                    }
                    if dl as usize > cap {
                        o.fail("uncompress/destLen", format!("uncompress reports destLen {} > capacity {}", dl, cap));
                    }
                    let mut dl2 = cap as c_ulong;
                    let mut sl = ilen as c_ulong;
                    let rc2 = unsafe { libz_rs_sys::uncompress2(op, &mut dl2, ip, &mut sl) };
                    if !matches!(rc2, Z_OK | Z_DATA_ERROR | Z_BUF_ERROR | Z_MEM_ERROR) {
                        o.fail("uncompress2/undocumented-status", format!("uncompress2 returned {}", rc2));
                    }
                    if dl2 as usize > cap || sl as usize > ilen {
                        o.fail("uncompress2/lengths", format!("uncompress2 reports destLen {} (cap {}) sourceLen {} (input {})", dl2, cap, sl, ilen));
                    }
                    if rc != rc2 {
                        o.fail("uncompress/uncompress2-disagree", format!("uncompress {} vs uncompress2 {}", rc, rc2));
                    }
                } else {
                    let input = unsafe { core::slice::from_raw_parts(ip, ilen) };
                    let output = unsafe { core::slice::from_raw_parts_mut(op, cap) };
                    let wb = if matches!(wbits, 16 | 32) { 15 } else { wbits };
                    let res = std::panic::catch_unwind(std::panic::AssertUnwindSafe(|| {
                        let (out, rc) = zlib_rs::decompress_slice(output, input, zlib_rs::InflateConfig { window_bits: wb });
                        (out.len(), rc as c_int)
                    }));
                    match res {
                        Err(_) => o.fail("decompress_slice/panic", "decompress_slice panicked".to_string()),
                        Ok((n, rc)) => {
                            if n > cap {
                                o.fail("decompress_slice/len", format!("returned slice of {} bytes from a {}-byte buffer", n, cap));
                            }
                            if !matches!(rc, Z_OK | Z_DATA_ERROR | Z_BUF_ERROR | Z_MEM_ERROR | Z_STREAM_ERROR) {
                                o.fail("decompress_slice/undocumented-status", format!("decompress_slice returned {}", rc));
                            }
                        }
                    }
                }
                o.class("one-shot helper");
                let mut fp = Fp::new();
                fp.bytes(&s.bytes).add(wbits as u64).add(entry as u64).add(cap as u64);
                if s.bytes.len() > 8 {
                    o.nontrivial = Some(fp.0);
                    if ctx.want_sample {
                        o.sample = Some(J::obj().set("entry", J::s(entry_name)).set("label", J::s(format!("{:?}", s.label))).set("bytes", J::s(hex_cut(&s.bytes, 40))).set("dest_capacity", J::U(cap as u64)));
                    }
                }
                return;
            }
        }
        for (tag, sig, msg) in &r.violations {
            if *tag == "C02" {
                o.fail(sig.clone(), format!("{} [{} windowBits={} schedule {}]", msg, entry_name, wbits, sched.describe()));
                return;
            }
        }
        if r.init_rc != Z_OK {
            if r.init_rc == RC_PANIC {
                o.fail("init/panic", format!("Inflate::new panicked for documented windowBits {}", wbits));
            } else {
                o.fail("init/status", format!("inflateInit2({}) returned {}", wbits, r.init_rc));
            }
            return;
        }
        if r.status == Status::CallLimit {
            o.fail("inflate/call-limit", format!("session did not finish within {} calls [{}]", io.max_calls, sched.describe()));
            return;
        }
        if r.total_out > 1032 * r.total_in + 1032 {
            o.fail("inflate/expansion-bound", format!("total_out {} from total_in {} exceeds deflate's maximum expansion", r.total_out, r.total_in));
            return;
        }
        if matches!(r.status, Status::MemError | Status::StreamError) {
            o.fail("inflate/unexpected-terminal-status", format!("inflate ended with {} on untrusted data (only OK/STREAM_END/NEED_DICT/DATA_ERROR/BUF_ERROR are expected here)", rc_name(r.last_rc)));
            return;
        }
        if let Some(h) = &r.head {
            // capture never beyond the announced capacities is enforced by the guard pages;
            // here: lengths reported are consistent
            if h.get_header_rc == Z_OK && h.head.done == 1 {
                o.class("header captured (done=1)");
            }
        }
        o.class(match r.status {
            Status::StreamEnd => "end:STREAM_END",
            Status::DataError => "end:DATA_ERROR",
            Status::NeedsMore => "end:needs-more-input",
            Status::NeedDict => "end:NEED_DICT",
            _ => "end:other",
        });
        if entry_name != "inflate" {
            o.class(if entry == 3 { "entry:Inflate wrapper" } else { "entry:header capture" });
        }
        let in_body = r.total_out > 0 || (r.status == Status::DataError && r.total_in > 4);
        if in_body {
            let mut fp = Fp::new();
            fp.bytes(&s.bytes).add(wbits as u64).add(entry as u64).bytes(sched.describe().as_bytes());
            o.nontrivial = Some(fp.0);
            if ctx.want_sample {
                o.sample = Some(
                    J::obj()
                        .set("entry", J::s(entry_name))
                        .set("label", J::s(format!("{:?}", s.label)))
                        .set("windowBits", J::I(wbits as i64))
                        .set("bytes", J::s(hex_cut(&s.bytes, 40)))
                        .set("len", J::U(s.bytes.len() as u64))
                        .set("schedule", J::s(sched.describe()))
                        .set("end", J::s(format!("{} after {} calls, {} in, {} out", status_name(r.status), r.ncalls, r.total_in, r.total_out))),
                );
            }
        }
    });
    o
}

pub fn property() -> Property {
    Property { id: "C02", rule: RULE, phases: vec![Phase::Prop { name: "untrusted bytes x windowBits x schedules x entry points", f: case, quick: 900_000, thorough: 8_000_000, max_tape: 260 }] }
}
