//! C03 — decoder accepts exactly the valid streams and decodes them exactly.
use crate::api::*;
use crate::einf::*;
use crate::gen::*;
use crate::json::{hex_cut, J};
use crate::refimpl::rdec::{DecOpts, Verdict};
use crate::refimpl::rgzh::{decode_stream, StreamResult, Wrap};
use crate::runner::*;
use crate::tape::{Fp, Tape};
use core::ffi::c_int;

pub const RULE: &str = "tape -> byte string from {R-GEN valid stream (stored/fixed/dynamic blocks, split-tree code lengths up to 15 bits, degenerate codes, 284+31, distance 32768), one injected fault of 14 classes, proper prefix, mutation (flip/replace/delete/insert/splice/truncate), zlib-rs or zlib-ng encoder output, noise} x wrapper {raw,zlib,gzip} with trailing garbage x decoder mode {raw,zlib,gzip,auto} x windowBits {0,8..15}; run through libz_rs_sys::inflate one-shot and under a generated chunk schedule, uncompress2 and decompress_slice; oracle = R-DEC (independent RFC 1951/1950/1952 decoder, zlib's non-strict reading), cross-checked against the construction label and arbitrated by zlib-ng. Non-trivial = decoder got past the wrapper and the stream has a dynamic block with a second-level table, or a stored block at a non-zero bit offset, or a degenerate code, or it is a fault/prefix/mutation variant; distinct by fingerprint of the bytes and mode.";

#[derive(Clone, Copy, Debug, PartialEq, Eq)]
pub enum MWrap {
    Raw,
    Zlib,
    Gzip,
    Auto,
}

#[derive(Clone, Copy, Debug)]
pub struct DecMode {
    pub wrap: MWrap,
    pub w: u32, // 0 or 8..15
}

impl DecMode {
    pub fn arg(&self) -> c_int {
        match self.wrap {
            MWrap::Raw => -(self.w as c_int),
            MWrap::Zlib => self.w as c_int,
            MWrap::Gzip => 16 + self.w as c_int,
            MWrap::Auto => 32 + self.w as c_int,
        }
    }
    pub fn resolve(&self, bytes: &[u8]) -> Option<Wrap> {
        match self.wrap {
            MWrap::Raw => Some(Wrap::Raw),
            MWrap::Zlib => Some(Wrap::Zlib),
            MWrap::Gzip => Some(Wrap::Gzip),
            MWrap::Auto => {
                if bytes.len() < 2 {
                    None
                } else if bytes[0] == 0x1f && bytes[1] == 0x8b {
                    Some(Wrap::Gzip)
                } else {
                    Some(Wrap::Zlib)
                }
            }
        }
    }
}

fn bits_for(dist: usize) -> u32 {
    let mut b = 8;
    while (1usize << b) < dist {
        b += 1;
    }
    b
}

/// choose a decoder mode that is sound for the subject (effective window >= largest distance)
pub fn gen_mode(t: &mut Tape, s: &Subject) -> (DecMode, bool) {
    let matching = !t.chance(40);
    let known = matches!(s.label, Label::Valid | Label::Faulted(_) | Label::Prefix | Label::Encoded(_));
    if matching {
        let wrap = match s.wrap {
            Wrap::Raw => MWrap::Raw,
            Wrap::Zlib => {
                if t.chance(80) {
                    MWrap::Auto
                } else {
                    MWrap::Zlib
                }
            }
            Wrap::Gzip => {
                if t.chance(80) {
                    MWrap::Auto
                } else {
                    MWrap::Gzip
                }
            }
        };
        let need = if known { bits_for(s.max_dist) } else { 15 };
        let mut w = need + t.below((16 - need) as usize) as u32;
        if wrap == MWrap::Raw && w < 8 {
            w = 8;
        }
        // windowBits 0: take the window from the zlib header (sound only if the header announces enough)
        if known && wrap != MWrap::Raw && t.chance(48) {
            let ok = match s.wrap {
                Wrap::Zlib => s.announced >= need,
                _ => true,
            };
            if ok {
                w = 0;
            }
        }
        (DecMode { wrap, w }, true)
    } else {
        let wrap = t.pick(&[MWrap::Raw, MWrap::Zlib, MWrap::Gzip, MWrap::Auto]);
        (DecMode { wrap, w: 15 }, false)
    }
}

pub fn expect(bytes: &[u8], m: &DecMode) -> StreamResult {
    match m.resolve(bytes) {
        None => StreamResult { verdict: Verdict::Truncated, out: vec![], consumed: 0, body: None, gz: None, zh: None, need_dict: None, body_off: 0 },
        Some(w) => decode_stream(bytes, w, m.w as u8, &DecOpts::lenient()),
    }
}

fn is_prefix(a: &[u8], b: &[u8]) -> bool {
    a.len() <= b.len() && &b[..a.len()] == a
}

pub fn verdict_name(v: &Verdict) -> String {
    match v {
        Verdict::Valid => "Valid".into(),
        Verdict::Invalid { bit_pos, reason } => format!("Invalid({} @bit {})", reason, bit_pos),
        Verdict::Truncated => "Truncated".into(),
        Verdict::TooBig => "TooBig".into(),
    }
}

/// compare one zlib-rs run against the reference verdict; returns Some((sig,msg)) on violation
pub fn judge(what: &str, run: &InfRun, sr: &StreamResult, ng: Option<&InfRun>) -> Option<(String, String)> {
    let want = match &sr.verdict {
        Verdict::Valid => Status::StreamEnd,
        Verdict::Invalid { reason, .. } if *reason == "need dictionary" => Status::NeedDict,
        Verdict::Invalid { .. } => Status::DataError,
        Verdict::Truncated => Status::NeedsMore,
        Verdict::TooBig => return None,
    };
    let ng_agrees = ng.map_or(true, |n| n.status == want);
    if run.status != want {
        if !ng_agrees {
            return None; // reference decoder and zlib-ng disagree: not decided here (counted by caller)
        }
        return Some((format!("verdict/{}-expected-{}", status_name(run.status), status_name(want)), format!("{}: zlib-rs final status {} (rc {}, msg {:?}) but the stream is {} (zlib-ng: {})", what, status_name(run.status), rc_name(run.last_rc), run.msg, verdict_name(&sr.verdict), ng.map_or("-", |n| status_name(n.status)))));
    }
    match want {
        Status::StreamEnd => {
            if run.out != sr.out {
                let at = run.out.iter().zip(sr.out.iter()).position(|(a, b)| a != b).unwrap_or(run.out.len().min(sr.out.len()));
                return Some(("output/differs".into(), format!("{}: STREAM_END but output differs from the bytes the stream encodes: {} vs {} bytes, first difference at {}", what, run.out.len(), sr.out.len(), at)));
            }
            if run.total_in != sr.consumed as u64 {
                return Some(("total_in/differs".into(), format!("{}: STREAM_END with total_in {} but the stream occupies {} bytes", what, run.total_in, sr.consumed)));
            }
        }
        Status::DataError | Status::NeedsMore | Status::NeedDict => {
            if !is_prefix(&run.out, &sr.out) {
                return Some(("output/contradicts-before-rejection".into(), format!("{}: {} bytes emitted before {} are not a prefix of what the stream encodes up to that point ({} bytes)", what, run.out.len(), status_name(want), sr.out.len())));
            }
            if let Some(n) = ng {
                if !(is_prefix(&run.out, &n.out) || is_prefix(&n.out, &run.out)) {
                    return Some(("output/contradicts-zlib-ng".into(), format!("{}: bytes emitted before {} contradict zlib-ng's ({} vs {} bytes)", what, status_name(want), run.out.len(), n.out.len())));
                }
            }
        }
        _ => {}
    }
    None
}

pub fn case(tape: &[u8], ctx: &Ctx) -> Outcome {
    let mut o = Outcome::new();
    let mut t = Tape::new(tape);
    let so = SubjectOpts::all();
    let s = gen_subject(&mut t, &so);
    let (mode, matching) = gen_mode(&mut t, &s);
    let sched = gen_inf_schedule(&mut t);
    let sr = expect(&s.bytes, &mode);
    // cross-check the oracle against the construction label (oracle self-test, every case)
    if matching {
        let resolved = mode.resolve(&s.bytes);
        let wrap_ok = resolved == Some(s.wrap);
        let win_ok = !(s.wrap == Wrap::Zlib && mode.w != 0 && s.announced > mode.w);
        if wrap_ok && win_ok {
            match &s.label {
                Label::Valid | Label::Encoded(_) => {
                    if sr.verdict != Verdict::Valid || sr.out != s.out || sr.consumed != s.stream_len {
                        o.internal = Some(format!("R-DEC disagrees with construction: label {:?} verdict {} out {}/{} consumed {}/{}", s.label, verdict_name(&sr.verdict), sr.out.len(), s.out.len(), sr.consumed, s.stream_len));
                        return o;
                    }
                }
                Label::Faulted(f) => {
                    if !matches!(sr.verdict, Verdict::Invalid { .. }) || sr.out != s.out {
                        o.internal = Some(format!("R-DEC disagrees with construction: fault {:?} verdict {} out {}/{}", f, verdict_name(&sr.verdict), sr.out.len(), s.out.len()));
                        return o;
                    }
                }
                Label::Prefix => {
                    if sr.verdict != Verdict::Truncated || !is_prefix(&sr.out, &s.out) {
                        o.internal = Some(format!("R-DEC disagrees with construction: prefix verdict {} out {}/{}", verdict_name(&sr.verdict), sr.out.len(), s.out.len()));
                        return o;
                    }
                }
                _ => {}
            }
        }
    }
    if sr.verdict == Verdict::TooBig {
        return o;
    }
    let io = InfOpts::new(mode.arg());
    ARENAS.with(|ar| {
        let ng = ARENAS2.with(|ar2| run_inflate::<Ng>(&s.bytes, &InfSchedule::one_shot(), &io, ar2));
        let ng_status_matches = {
            let want = match &sr.verdict {
                Verdict::Valid => Status::StreamEnd,
                Verdict::Invalid { reason, .. } if *reason == "need dictionary" => Status::NeedDict,
                Verdict::Invalid { .. } => Status::DataError,
                _ => Status::NeedsMore,
            };
            ng.status == want
        };
        if !ng_status_matches {
            o.class("R-DEC/zlib-ng verdict disagreement (not decided)");
            if matches!(s.label, Label::Valid | Label::Encoded(_) | Label::Faulted(_)) && matching {
                // the construction label, R-DEC and the mode agree, zlib-ng does not: report as oracle problem
                o.internal = Some(format!("zlib-ng disagrees with R-DEC and the construction label: label {:?} R-DEC {} zlib-ng {} mode {:?}", s.label, verdict_name(&sr.verdict), status_name(ng.status), mode));
                return;
            }
        }
        let r1 = run_inflate::<Rs>(&s.bytes, &InfSchedule::one_shot(), &io, ar);
        if let Some((sig, msg)) = judge("one-shot inflate", &r1, &sr, Some(&ng)) {
            o.fail(sig, msg);
            return;
        }
        let r2 = run_inflate::<Rs>(&s.bytes, &sched, &io, ar);
        if let Some((sig, msg)) = judge("scheduled inflate", &r2, &sr, Some(&ng)) {
            o.fail(format!("sched/{}", sig), format!("{} [{}]", msg, sched.describe()));
            return;
        }
        // one-shot helpers (zlib wrapper, 32 KiB window)
        if mode.wrap == MWrap::Zlib && mode.w == 15 && ng_status_matches {
            let cap = sr.out.len() + 64;
            let mut dest = vec![0u8; cap];
            let mut dl = cap as core::ffi::c_ulong;
            let mut sl = s.bytes.len() as core::ffi::c_ulong;
            let rc = unsafe { libz_rs_sys::uncompress2(dest.as_mut_ptr(), &mut dl, s.bytes.as_ptr(), &mut sl) };
            match &sr.verdict {
                Verdict::Valid => {
                    if rc != Z_OK || dl as usize != sr.out.len() || dest[..sr.out.len()] != sr.out[..] || sl as usize != sr.consumed {
                        o.fail("uncompress2/valid", format!("uncompress2 on a valid stream: rc {} destLen {} (want {}) sourceLen {} (want {})", rc_name(rc), dl, sr.out.len(), sl, sr.consumed));
                    }
                }
                Verdict::Invalid { .. } | Verdict::Truncated => {
                    if rc != Z_DATA_ERROR {
                        o.fail("uncompress2/invalid", format!("uncompress2 on an {} stream with room to spare returned {}", verdict_name(&sr.verdict), rc_name(rc)));
                    }
                }
                _ => {}
            }
            let mut dest2 = vec![0u8; cap];
            let (outs, rc2) = zlib_rs::decompress_slice(&mut dest2, &s.bytes, zlib_rs::InflateConfig { window_bits: 15 });
            let rc2 = rc2 as c_int;
            match &sr.verdict {
                Verdict::Valid => {
                    if rc2 != Z_OK || outs != &sr.out[..] {
                        o.fail("decompress_slice/valid", format!("decompress_slice on a valid stream: rc {} len {} (want {})", rc_name(rc2), outs.len(), sr.out.len()));
                    }
                }
                Verdict::Invalid { .. } | Verdict::Truncated => {
                    if rc2 != Z_DATA_ERROR {
                        o.fail("decompress_slice/invalid", format!("decompress_slice on an {} stream returned {}", verdict_name(&sr.verdict), rc_name(rc2)));
                    }
                }
                _ => {}
            }
        }
        // classification
        let past_wrapper = sr.body.as_ref().map_or(false, |b| !b.blocks.is_empty() || b.out.len() > 0 || matches!(b.verdict, Verdict::Invalid { .. }));
        let b = sr.body.as_ref();
        let structural = b.map_or(false, |b| b.needs_sublevel || b.degenerate_code || b.blocks.iter().any(|k| k.stored_unaligned));
        let variant = matches!(s.label, Label::Faulted(_) | Label::Prefix | Label::Mutated(_));
        if let Some(b) = b {
            if b.needs_sublevel {
                o.class("second-level table");
            }
            if b.degenerate_code {
                o.class("degenerate code");
            }
            if b.blocks.iter().any(|k| k.stored_unaligned) {
                o.class("stored block at bit offset != 0");
            }
            if b.used_len_284_31 {
                o.class("length 258 as 284+31");
            }
            if b.max_distance == 32768 {
                o.class("distance 32768");
            }
        }
        o.class(match &s.label {
            Label::Valid => "label:valid",
            Label::Faulted(_) => "label:faulted",
            Label::Prefix => "label:prefix",
            Label::Mutated(_) => "label:mutated",
            Label::Encoded(_) => "label:encoder-output",
            Label::Noise => "label:noise",
        });
        o.class(match &sr.verdict {
            Verdict::Valid => "verdict:valid",
            Verdict::Invalid { .. } => "verdict:invalid",
            Verdict::Truncated => "verdict:truncated",
            Verdict::TooBig => "verdict:toobig",
        });
        if s.trailing > 0 {
            o.class("trailing garbage");
        }
        if !matching {
            o.class("mismatched decoder mode");
        }
        if mode.w == 0 {
            o.class("windowBits 0");
        }
        if past_wrapper && (structural || variant) {
            let mut fp = Fp::new();
            fp.bytes(&s.bytes).add(mode.arg() as u64);
            o.nontrivial = Some(fp.0);
            if ctx.want_sample {
                o.sample = Some(
                    J::obj()
                        .set("label", J::s(format!("{:?}", s.label)))
                        .set("wrap", J::s(format!("{:?}", s.wrap)))
                        .set("decoder_windowBits", J::I(mode.arg() as i64))
                        .set("bytes", J::s(hex_cut(&s.bytes, 48)))
                        .set("len", J::U(s.bytes.len() as u64))
                        .set("reference_verdict", J::s(verdict_name(&sr.verdict)))
                        .set("out_len", J::U(sr.out.len() as u64))
                        .set("blocks", J::s(b.map_or(String::new(), |b| b.blocks.iter().take(8).map(|k| format!("{}{}", ["S", "F", "D", "?"][k.btype.min(3) as usize], if k.last { "!" } else { "" })).collect::<Vec<_>>().join(""))))
                        .set("schedule", J::s(sched.describe())),
                );
            }
        }
    });
    o
}

// ---------------------------------------------------------------------------------------------
// exhaustive: all raw deflate byte strings up to N bytes

fn short_eval(bytes: &[u8]) -> Option<Fail> {
    let mode = DecMode { wrap: MWrap::Raw, w: 15 };
    let sr = expect(bytes, &mode);
    let io = InfOpts::new(-15);
    ARENAS.with(|ar| {
        let r = run_inflate::<Rs>(bytes, &InfSchedule::one_shot(), &io, ar);
        let ng = ARENAS2.with(|ar2| run_inflate::<Ng>(bytes, &InfSchedule::one_shot(), &io, ar2));
        judge("exhaustive short raw stream", &r, &sr, Some(&ng)).map(|(sig, msg)| Fail { sig, msg: format!("{} bytes={}", msg, crate::json::hex(bytes)) })
    })
}

pub fn enumerate(ctx: &Ctx, sink: &mut dyn FnMut(&[u8], Option<Outcome>) -> bool) {
    let maxlen = if ctx.tier == Tier::Thorough { 3 } else { 2 };
    let mut idx = 0u64;
    for len in 0..=maxlen {
        let total: u64 = 1u64 << (8 * len);
        // each worker takes a contiguous slice of first-byte values interleaved by index
        let mut v = 0u64;
        while v < total {
            let mine = (idx % ctx.nworkers as u64) == ctx.worker as u64;
            idx += 1;
            // batch: 256 consecutive values (last byte varies) per sink call
            let batch = 256.min(total - v);
            if mine {
                let mut o = Outcome::new();
                o.evals = 0;
                let mut bad: Option<(Vec<u8>, Fail)> = None;
                let first: Vec<u8> = (0..len).map(|i| ((v >> (8 * i)) & 0xff) as u8).collect();
                sink(&first, None);
                for k in 0..batch {
                    let val = v + k;
                    let bytes: Vec<u8> = (0..len).map(|i| ((val >> (8 * i)) & 0xff) as u8).collect();
                    o.evals += 1;
                    if let Some(f) = short_eval(&bytes) {
                        bad = Some((bytes, f));
                        break;
                    }
                }
                let mut fp = Fp::new();
                fp.add(len as u64).add(v);
                o.nontrivial = Some(fp.0);
                o.class("exhaustive batch of 256 short raw streams");
                let bytes = match bad {
                    Some((b, f)) => {
                        o.fail = Some(f);
                        b
                    }
                    None => first,
                };
                if ctx.want_sample {
                    o.sample = Some(J::obj().set("exhaustive_batch_len", J::U(len as u64)).set("first_value", J::U(v)));
                }
                if !sink(&bytes, Some(o)) {
                    return;
                }
            }
            v += batch;
        }
    }
}

pub fn enum_replay(b: &[u8], _ctx: &Ctx) -> Outcome {
    let mut o = Outcome::new();
    o.fail = short_eval(b);
    o
}

pub fn property() -> Property {
    Property {
        id: "C03",
        rule: RULE,
        phases: vec![
            Phase::Enum { name: "all raw deflate byte strings of length <= 2 (quick) / <= 3 (thorough)", f: enumerate, replay: enum_replay },
            Phase::Prop { name: "generated streams x decoder modes", f: case, quick: 400_000, thorough: 4_000_000, max_tape: 300 },
        ],
    }
}
