//! C04 — decompression outcome is independent of input/output chunking and flush mode.
use crate::api::*;
use crate::einf::*;
use crate::gen::*;
use crate::json::{hex_cut, J};
use crate::props::c03::{expect, gen_mode, verdict_name};
use crate::runner::*;
use crate::tape::{Fp, Tape};

pub const RULE: &str = "tape -> byte string (R-GEN valid / single-fault / prefix / mutated / encoder output / noise, any wrapper, trailing garbage) x decoder mode x 4 independent schedules of per-call (avail_in, avail_out, flush in {NO_FLUSH,SYNC_FLUSH,FINISH,BLOCK,TREES}) with sizes around 0,1,15/16,260,32768 and guard-page aligned buffers, followed by 'deliver everything'; run on libz_rs_sys::inflate and zlib_rs::Inflate::decompress. Oracle: every schedule reaches the baseline (one call chain with the whole input and ample output) triple (output bytes, final status class, total_in). Non-trivial = a schedule with >= 3 calls of which >= 1 suspended inside a block (data_type bit 128 clear on a Z_OK return) on a stream with >= 1 match; distinct by (bytes, mode, schedules).";

fn outcome(r: &InfRun) -> (Status, u64) {
    (r.status, r.total_in)
}

pub fn case(tape: &[u8], ctx: &Ctx) -> Outcome {
    let mut o = Outcome::new();
    let mut t = Tape::new(tape);
    let so = SubjectOpts::all();
    let s = gen_subject(&mut t, &so);
    let (mode, _matching) = gen_mode(&mut t, &s);
    let scheds: Vec<InfSchedule> = (0..4).map(|_| gen_inf_schedule(&mut t)).collect();
    let wrapper_ok = !matches!(mode.arg(), 16 | 32);
    let mut io = InfOpts::new(mode.arg());
    io.record_calls = true;
    ARENAS.with(|ar| {
        let base = run_inflate::<Rs>(&s.bytes, &InfSchedule::one_shot(), &io, ar);
        if matches!(base.status, Status::OutLimit | Status::CallLimit | Status::MemError | Status::StreamError) {
            return;
        }
        let mut max_calls = 0;
        let mut suspended = false;
        let mut bit_states = 0u64;
        for (k, sc) in scheds.iter().enumerate() {
            let r = run_inflate::<Rs>(&s.bytes, sc, &io, ar);
            max_calls = max_calls.max(r.ncalls);
            for c in &r.calls {
                if c.rc == Z_OK && c.data_type & 128 == 0 {
                    suspended = true;
                    bit_states |= 1u64 << (c.data_type & 63);
                }
            }
            if r.status == Status::CallLimit {
                o.class("call limit reached (schedule not compared)");
                continue;
            }
            if outcome(&r) != outcome(&base) || r.out != base.out {
                let at = r.out.iter().zip(base.out.iter()).position(|(a, b)| a != b).unwrap_or(r.out.len().min(base.out.len()));
                o.fail(
                    format!("inflate/{}-vs-{}", status_name(r.status), status_name(base.status)),
                    format!(
                        "schedule {} reaches (status {}, total_in {}, {} output bytes, msg {:?}) but one call with ample buffers reaches (status {}, total_in {}, {} output bytes, msg {:?}); outputs first differ at {}; schedule: {}",
                        k,
                        status_name(r.status),
                        r.total_in,
                        r.out.len(),
                        r.msg,
                        status_name(base.status),
                        base.total_in,
                        base.out.len(),
                        base.msg,
                        at,
                        sc.describe()
                    ),
                );
                return;
            }
            if wrapper_ok && k < 2 {
                let w = run_inflate_with::<RustApi>(&s.bytes, sc, &io, ar);
                if w.status == Status::CallLimit {
                    continue;
                }
                if outcome(&w) != outcome(&base) || w.out != base.out {
                    o.fail(
                        format!("Inflate::decompress/{}-vs-{}", status_name(w.status), status_name(base.status)),
                        format!(
                            "zlib_rs::Inflate under schedule {} reaches (status {}, total_in {}, {} output bytes) but the baseline reaches (status {}, total_in {}, {} output bytes); schedule: {}",
                            k,
                            status_name(w.status),
                            w.total_in,
                            w.out.len(),
                            status_name(base.status),
                            base.total_in,
                            base.out.len(),
                            sc.describe()
                        ),
                    );
                    return;
                }
            }
        }
        o.evals = 5;
        let sr = expect(&s.bytes, &mode);
        let has_match = sr.body.as_ref().map_or(false, |b| b.blocks.iter().any(|k| k.matches > 0));
        o.class(match base.status {
            Status::StreamEnd => "baseline:STREAM_END",
            Status::DataError => "baseline:DATA_ERROR",
            Status::NeedsMore => "baseline:needs-more-input",
            Status::NeedDict => "baseline:NEED_DICT",
            _ => "baseline:other",
        });
        if suspended {
            o.class("suspended inside a block");
        }
        if bit_states.count_ones() >= 4 {
            o.class(">=4 distinct bit offsets at suspension");
        }
        if scheds.iter().any(|s| s.steps.iter().any(|x| x.flush == Z_TREES || x.flush == Z_BLOCK)) {
            o.class("uses BLOCK/TREES");
        }
        if scheds.iter().any(|s| s.steps.iter().any(|x| x.flush == Z_FINISH)) {
            o.class("uses FINISH mid-stream");
        }
        if scheds.iter().any(|s| s.steps.iter().any(|x| x.out_chunk > 32768) || s.tail_out > 32768 && s.tail_out < 1 << 20) {
            o.class("output chunk > 32 KiB");
        }
        if max_calls >= 3 && suspended && has_match {
            let mut fp = Fp::new();
            fp.bytes(&s.bytes).add(mode.arg() as u64);
            for sc in &scheds {
                fp.bytes(sc.describe().as_bytes());
            }
            o.nontrivial = Some(fp.0);
            if ctx.want_sample {
                o.sample = Some(
                    J::obj()
                        .set("label", J::s(format!("{:?}", s.label)))
                        .set("decoder_windowBits", J::I(mode.arg() as i64))
                        .set("bytes", J::s(hex_cut(&s.bytes, 40)))
                        .set("len", J::U(s.bytes.len() as u64))
                        .set("reference_verdict", J::s(verdict_name(&sr.verdict)))
                        .set("baseline", J::s(format!("{} total_in={} out={}", status_name(base.status), base.total_in, base.out.len())))
                        .set("schedules", J::A(scheds.iter().map(|x| J::s(x.describe())).collect()))
                        .set("max_calls", J::U(max_calls as u64)),
                );
            }
        }
    });
    o
}

pub fn property() -> Property {
    Property { id: "C04", rule: RULE, phases: vec![Phase::Prop { name: "byte strings x 4 schedules", f: case, quick: 200_000, thorough: 2_000_000, max_tape: 400 }] }
}
