//! C05 — every emitted stream is RFC-conformant and decodable within the announced window.
//! C11's flush-point oracle lives here too (same reference decoder).
use crate::api::*;
use crate::edef::*;
use crate::einf::*;
use crate::gen::DefCfg;
use crate::props::c01::{classify, sample};
use crate::refimpl::rck;
use crate::refimpl::rdec::{inflate_raw, DecOpts, Verdict};
use crate::refimpl::rgen::GzFields;
use crate::refimpl::rgzh::{parse_gzip_header, parse_zlib_header, HdrErr, Wrap};
use crate::runner::*;
use crate::tape::{Fp, Tape};
use core::ffi::c_int;

pub const RULE: &str = "C01's generator (all configs, data recipes, legal schedules with flushes / params / tune) plus preset dictionaries (zlib, raw) and gzip headers set with deflateSetHeader. Oracle on the complete output of EVERY session: independent wrapper parser (CM, CINFO = windowBits-8, FCHECK, FLEVEL = zlib's level hint at header time, FDICT <=> non-empty dictionary, DICTID = Adler-32(dict); gzip ID/CM/FLG/MTIME/XFL/OS and optional fields, FHCRC) then R-DEC in strict mode limited to the announced window: valid block types, complete codes <= 15/7 bits, LEN/NLEN, final flag once, every distance <= min(window, produced + dictionary), output == input, trailer = bitwise Adler-32 (BE) / CRC-32 + ISIZE (LE), nothing after it. Enumeration phase: encode_len for all 256 lengths and encode_dist for all 32768 distances and the static tables against tables regenerated from RFC 1951 (needs hook H2). Non-trivial = C01's rule and the stream has a dynamic block with a match of distance > 258, or a stored block, or a dictionary / custom gzip header; distinct by (config, data, schedule).";

pub fn level_flags(level: c_int, strategy: c_int) -> u8 {
    let level = if level == -1 { 6 } else { level };
    if strategy >= 2 || level < 2 {
        0
    } else if level < 6 {
        1
    } else if level == 6 {
        2
    } else {
        3
    }
}

pub fn gzip_xfl(level: c_int, strategy: c_int) -> u8 {
    let level = if level == -1 { 6 } else { level };
    if level == 9 {
        2
    } else if strategy >= 2 || level < 2 {
        4
    } else {
        0
    }
}

pub struct Parsed {
    pub body_off: usize,
    pub trailer_len: usize,
}

/// check the wrapper header of `out`; returns body offset
pub fn check_header(out: &[u8], cfg: &DefCfg, dict: Option<&[u8]>, gz: Option<&GzFields>, hl: c_int, hs: c_int) -> Result<Parsed, (String, String)> {
    match cfg.wrap {
        Wrap::Raw => Ok(Parsed { body_off: 0, trailer_len: 0 }),
        Wrap::Zlib => {
            let h = match parse_zlib_header(out, 0) {
                Ok(h) => h,
                Err(HdrErr::Truncated) => return Err(("header/zlib-truncated".into(), format!("output of {} bytes has no complete zlib header", out.len()))),
                Err(HdrErr::Invalid(r)) => return Err(("header/zlib-invalid".into(), format!("zlib header invalid: {} (bytes {:02x?})", r, &out[..out.len().min(2)]))),
            };
            if h.cinfo as u32 + 8 != cfg.eff_wbits() {
                return Err(("header/cinfo".into(), format!("zlib header announces a {}-bit window, stream was initialised with windowBits {}", h.cinfo + 8, cfg.wbits)));
            }
            if h.flevel != level_flags(hl, hs) {
                return Err(("header/flevel".into(), format!("zlib header FLEVEL {} but level {} strategy {} at header time give {}", h.flevel, hl, hs, level_flags(hl, hs))));
            }
            let want_dict = dict.map_or(false, |d| !d.is_empty());
            if h.fdict != want_dict {
                return Err(("header/fdict".into(), format!("FDICT is {} but a non-empty dictionary was {}set", h.fdict, if want_dict { "" } else { "not " })));
            }
            if want_dict {
                let d = dict.unwrap();
                let id = rck::adler32_fast(1, d);
                if h.dictid != id {
                    return Err(("header/dictid".into(), format!("DICTID {:#010x} but Adler-32 of the dictionary is {:#010x}", h.dictid, id)));
                }
            }
            Ok(Parsed { body_off: h.len, trailer_len: 4 })
        }
        Wrap::Gzip => {
            let h = match parse_gzip_header(out) {
                Ok(h) => h,
                Err(HdrErr::Truncated) => return Err(("header/gzip-truncated".into(), format!("output of {} bytes has no complete gzip header", out.len()))),
                Err(HdrErr::Invalid(r)) => return Err(("header/gzip-invalid".into(), format!("gzip header invalid: {}", r))),
            };
            let xfl = gzip_xfl(hl, hs);
            if h.xfl != xfl {
                return Err(("header/xfl".into(), format!("gzip XFL {} but level {} strategy {} at header time give {}", h.xfl, hl, hs, xfl)));
            }
            match gz {
                None => {
                    if h.flg != 0 || h.mtime != 0 || h.os != 3 {
                        return Err(("header/gzip-default".into(), format!("default gzip header has FLG {} MTIME {} OS {} (expected 0, 0, 3)", h.flg, h.mtime, h.os)));
                    }
                }
                Some(f) => {
                    if let Some((sig, msg)) = compare_gz(&h, f) {
                        return Err((sig, msg));
                    }
                }
            }
            Ok(Parsed { body_off: h.len, trailer_len: 8 })
        }
    }
}

/// RFC 1952 header written == fields supplied (C20 write side)
pub fn compare_gz(h: &crate::refimpl::rgzh::GzHeader, f: &GzFields) -> Option<(String, String)> {
    if h.text != f.text {
        return Some(("gzhead/text".into(), format!("FTEXT {} but text flag supplied {}", h.text, f.text)));
    }
    if h.mtime != f.mtime {
        return Some(("gzhead/mtime".into(), format!("MTIME {} but supplied {}", h.mtime, f.mtime)));
    }
    if h.os != f.os {
        return Some(("gzhead/os".into(), format!("OS {} but supplied {}", h.os, f.os)));
    }
    if h.hcrc_flag != f.hcrc {
        return Some(("gzhead/hcrc-flag".into(), format!("FHCRC {} but header crc requested {}", h.hcrc_flag, f.hcrc)));
    }
    if h.extra != f.extra {
        return Some(("gzhead/extra".into(), format!("extra field written ({:?} bytes) differs from the one supplied ({:?} bytes)", h.extra.as_ref().map(|e| e.len()), f.extra.as_ref().map(|e| e.len()))));
    }
    if h.name != f.name {
        return Some(("gzhead/name".into(), format!("file name written ({:?} bytes) differs from the one supplied ({:?} bytes)", h.name.as_ref().map(|e| e.len()), f.name.as_ref().map(|e| e.len()))));
    }
    if h.comment != f.comment {
        return Some(("gzhead/comment".into(), format!("comment written ({:?} bytes) differs from the one supplied ({:?} bytes)", h.comment.as_ref().map(|e| e.len()), f.comment.as_ref().map(|e| e.len()))));
    }
    None
}

pub struct Verified {
    pub body: crate::refimpl::rdec::DecResult,
    pub body_off: usize,
}

pub fn dict_tail(d: Option<&[u8]>) -> Vec<u8> {
    match d {
        Some(d) => d[d.len().saturating_sub(32768)..].to_vec(),
        None => Vec::new(),
    }
}

/// full strict verification of a finished stream
pub fn verify_output(out: &[u8], plan: &DefPlan, hl: c_int, hs: c_int, gz_applied: bool) -> Result<Verified, (String, String)> {
    let cfg = &plan.cfg;
    let p = check_header(out, cfg, plan.dict.as_deref(), if gz_applied { plan.gz.as_ref() } else { None }, hl, hs)?;
    let mut opts = DecOpts::strict(1usize << cfg.eff_wbits());
    opts.dict = dict_tail(plan.dict.as_deref());
    let body = inflate_raw(&out[p.body_off..], 0, &opts);
    match &body.verdict {
        Verdict::Valid => {}
        Verdict::Invalid { bit_pos, reason } => {
            return Err((format!("body/{}", reason.replace(' ', "-")), format!("strict reference decoder rejects the emitted deflate data at bit {}: {} (after {} output bytes)", bit_pos, reason, body.out.len())));
        }
        Verdict::Truncated => return Err(("body/truncated".into(), format!("emitted stream ends before its final block is complete ({} bytes out of {} decoded)", body.out.len(), plan.data.len()))),
        Verdict::TooBig => return Err(("body/too-big".into(), "decoded output exceeds the oracle limit".into())),
    }
    if body.out != plan.data {
        let at = body.out.iter().zip(plan.data.iter()).position(|(a, b)| a != b).unwrap_or(body.out.len().min(plan.data.len()));
        return Err(("body/data-differs".into(), format!("strict reference decoder reproduces {} bytes, input was {} bytes, first difference at {}", body.out.len(), plan.data.len(), at)));
    }
    let end = p.body_off + body.end_byte();
    if out.len() != end + p.trailer_len {
        return Err(("trailer/length".into(), format!("stream is {} bytes but header+body end at {} and the trailer is {} bytes", out.len(), end, p.trailer_len)));
    }
    match cfg.wrap {
        Wrap::Raw => {}
        Wrap::Zlib => {
            let want = rck::adler32_fast(1, &plan.data);
            let got = u32::from_be_bytes([out[end], out[end + 1], out[end + 2], out[end + 3]]);
            if want != got {
                return Err(("trailer/adler".into(), format!("zlib trailer {:#010x} but Adler-32 of the input is {:#010x}", got, want)));
            }
        }
        Wrap::Gzip => {
            let want = rck::crc32_fast(0, &plan.data);
            let got = u32::from_le_bytes([out[end], out[end + 1], out[end + 2], out[end + 3]]);
            let isz = u32::from_le_bytes([out[end + 4], out[end + 5], out[end + 6], out[end + 7]]);
            if want != got {
                return Err(("trailer/crc".into(), format!("gzip trailer CRC {:#010x} but CRC-32 of the input is {:#010x}", got, want)));
            }
            if isz != plan.data.len() as u32 {
                return Err(("trailer/isize".into(), format!("gzip trailer ISIZE {} but input length is {}", isz, plan.data.len())));
            }
        }
    }
    Ok(Verified { body, body_off: p.body_off })
}

/// C11: check every completed flush point of a run. Decoding is incremental (linear in the stream):
/// each segment between flush points is decoded by R-DEC (strict) from the end of the last complete
/// block, with exactly the history that is allowed: everything since the last FULL flush (plus the
/// dictionary before the first one). A back-reference beyond that is "distance too far".
pub fn verify_flush_points(plan: &DefPlan, run: &DefRun, body_off: usize) -> Option<(String, String)> {
    let w = 1usize << plan.cfg.eff_wbits();
    let mut produced: Vec<u8> = Vec::new();
    let mut cur_bit = 0usize;
    let mut barrier: Option<usize> = None; // produced index of the last full-flush point
    let hist = |produced: &Vec<u8>, barrier: Option<usize>| -> Vec<u8> {
        match barrier {
            None => {
                let mut h = dict_tail(plan.dict.as_deref());
                h.extend_from_slice(produced);
                let n = h.len();
                h[n.saturating_sub(32768)..].to_vec()
            }
            Some(b) => {
                let s = &produced[b..];
                s[s.len().saturating_sub(32768)..].to_vec()
            }
        }
    };
    for fp in &run.flush_points {
        let fname = match fp.flush {
            Z_PARTIAL_FLUSH => "PARTIAL_FLUSH",
            Z_SYNC_FLUSH => "SYNC_FLUSH",
            _ => "FULL_FLUSH",
        };
        if fp.out_len < body_off {
            return Some((format!("flush/{}/header-incomplete", fname), format!("{} completed at call {} with only {} output bytes (header is {})", fname, fp.call_index, fp.out_len, body_off)));
        }
        let prefix = &run.out[body_off..fp.out_len];
        let mut opts = DecOpts::strict(w);
        opts.dict = hist(&produced, barrier);
        let r = inflate_raw(prefix, cur_bit, &opts);
        match &r.verdict {
            Verdict::Truncated => {}
            Verdict::Valid => {}
            Verdict::Invalid { bit_pos, reason } => {
                let sig = if barrier.is_some() && *reason == "invalid distance too far back" { "flush/FULL_FLUSH/reference-before-restart-point".to_string() } else { format!("flush/{}/prefix-invalid", fname) };
                return Some((sig, format!("bytes emitted up to the {} that completed at call {} are not decodable with the history allowed (since the last full flush): {} at bit {}", fname, fp.call_index, reason, bit_pos)));
            }
            Verdict::TooBig => return None,
        }
        produced.extend_from_slice(&r.out[..r.complete_out]);
        cur_bit = r.end_bit;
        let want = &plan.data[..fp.in_len.min(plan.data.len())];
        if produced != want {
            return Some((
                format!("flush/{}/input-not-decodable", fname),
                format!("after {} completed at call {} (delayed: {}) the {} bytes emitted so far decode to {} bytes but {} input bytes had been supplied", fname, fp.call_index, fp.delayed, fp.out_len, produced.len(), want.len()),
            ));
        }
        if fp.flush != Z_PARTIAL_FLUSH {
            let n = fp.out_len;
            let tail_ok = n >= body_off + 4 && run.out[n - 4..n] == [0x00, 0x00, 0xff, 0xff];
            if !tail_ok {
                return Some((format!("flush/{}/marker", fname), format!("output after {} at call {} does not end with 00 00 FF FF (tail {:02x?})", fname, fp.call_index, &run.out[n.saturating_sub(4)..n])));
            }
            if r.end_bit != prefix.len() * 8 && r.verdict != Verdict::Valid {
                return Some((format!("flush/{}/alignment", fname), format!("after {} the last complete block ends at bit {} of {} emitted bits", fname, r.end_bit, prefix.len() * 8)));
            }
        }
        if r.verdict == Verdict::Valid {
            // final block already seen (flush requested after the data ended): nothing more to decode
            return None;
        }
        if fp.flush == Z_FULL_FLUSH {
            barrier = Some(produced.len());
        }
    }
    if run.finished {
        let tl = match plan.cfg.wrap {
            Wrap::Raw => 0,
            Wrap::Zlib => 4,
            Wrap::Gzip => 8,
        };
        if run.out.len() < body_off + tl {
            return None;
        }
        let rest = &run.out[body_off..run.out.len() - tl];
        let mut opts = DecOpts::strict(w);
        opts.dict = hist(&produced, barrier);
        let r = inflate_raw(rest, cur_bit, &opts);
        match &r.verdict {
            Verdict::Valid => {
                produced.extend_from_slice(&r.out[..r.complete_out]);
                if produced != plan.data {
                    return Some(("flush/tail-data".into(), format!("data after the last flush point decodes to {} bytes in total, input was {}", produced.len(), plan.data.len())));
                }
            }
            Verdict::Invalid { bit_pos, reason } => {
                let sig = if barrier.is_some() && *reason == "invalid distance too far back" { "flush/FULL_FLUSH/reference-before-restart-point".to_string() } else { "flush/tail-invalid".to_string() };
                return Some((sig, format!("data after the last flush point cannot be decoded with the history allowed since the last full flush: {} at bit {}", reason, bit_pos)));
            }
            Verdict::Truncated => return Some(("flush/tail-truncated".into(), "finished stream has no final block after the last flush point".into())),
            Verdict::TooBig => {}
        }
    }
    None
}

pub fn case(tape: &[u8], ctx: &Ctx) -> Outcome {
    let mut o = Outcome::new();
    let (tape, copy) = split_copy_suffix(tape);
    let mut t = Tape::new(tape);
    let mut po = PlanOpts::standard();
    po.allow_dict = true;
    let mut plan = gen_plan(&mut t, &po);
    if let Some(b) = copy {
        apply_copy(&mut plan, b);
        o.class("session with deflateCopy-and-continue");
    }
    let plan = plan;
    let api = t.below(8);
    ARENAS.with(|ar| {
        let (run, api_name, gz_applied) = if api == 0 {
            let mut p2 = plan.clone();
            p2.gz = None;
            (run_deflate_with::<RustDef>(&p2, ar), "zlib_rs::Deflate", false)
        } else {
            (run_deflate::<Rs>(&plan, ar), "libz_rs_sys", true)
        };
        if run.init_rc != Z_OK || !run.finished {
            o.class("session did not finish (see C06)");
            return;
        }
        if let Some(rc) = run.dict_rc {
            if rc != Z_OK {
                o.class("dictionary refused");
                return;
            }
        }
        let v = match verify_output(&run.out, &plan, run.header_level, run.header_strategy, gz_applied && run.header_rc == Some(Z_OK)) {
            Ok(v) => v,
            Err((sig, msg)) => {
                o.fail(sig, format!("{}: {}; {} [{}]", api_name, msg, plan.cfg.describe(), plan.describe_ops()));
                return;
            }
        };
        let base = classify(&mut o, &plan, &run);
        let far = v.body.blocks.iter().any(|b| b.btype == 2) && v.body.max_distance > 258;
        let stored = v.body.blocks.iter().any(|b| b.btype == 0 && b.out_end > b.out_start);
        if far {
            o.class("dynamic block + distance > 258");
        }
        if stored {
            o.class("stored block");
        }
        if v.body.blocks.iter().any(|b| b.btype == 1) {
            o.class("fixed block");
        }
        if plan.dict.is_some() {
            o.class("preset dictionary");
        }
        if v.body.max_reach_before_start > 0 {
            o.class("match reaches into dictionary");
        }
        if plan.gz.is_some() && gz_applied {
            o.class("custom gzip header");
        }
        if v.body.max_distance + 262 >= (1usize << plan.cfg.eff_wbits()) {
            o.class("distance near window limit");
        }
        if base && (far || stored || plan.dict.is_some() || (plan.gz.is_some() && gz_applied)) {
            let mut fp = Fp::new();
            fp.bytes(plan.cfg.describe().as_bytes()).bytes(&plan.data).bytes(plan.describe_ops().as_bytes()).add(api as u64);
            o.nontrivial = Some(fp.0);
            if ctx.want_sample {
                o.sample = Some(sample(&plan, &run, api_name).set("blocks", crate::json::J::s(v.body.blocks.iter().take(12).map(|k| ["S", "F", "D"][k.btype.min(2) as usize]).collect::<String>())).set("max_distance", crate::json::J::U(v.body.max_distance as u64)));
            }
        }
    });
    o
}

pub fn property() -> Property {
    Property { id: "C05", rule: RULE, phases: vec![Phase::Prop { name: "deflate sessions -> strict reference decoder", f: case, quick: 300_000, thorough: 4_000_000, max_tape: 320 }] }
}
