//! C06 — the compression API never aborts, stays in bounds, and always makes progress.
use crate::api::*;
use crate::edef::*;
use crate::einf::*;
use crate::eprog::*;
use crate::json::J;
use crate::props::c01::roundtrip_check;
use crate::runner::*;
use crate::tape::{Fp, Tape};

pub const RULE: &str = "two generators. (A) stateful programs (<= 48 operations, shrunk as one value) over {deflateInit2, deflate(any flush), deflateParams, deflateTune, deflatePrime (raw streams before the first deflate, as documented, but any number of calls), deflateSetDictionary, deflateGetDictionary, deflateSetHeader, deflatePending, deflateBound, deflateReset, deflateResetKeep, deflateCopy (then both streams live), deflateEnd} with arbitrary integer arguments and per-call buffers of 0, 1, .. bytes that end at guard pages; afterwards every live stream is driven by a Z_FINISH loop with fresh output space. (B) legal deflate sessions as in C01 (dictionaries, gzip headers, arbitrary deflateTune integers) on libz_rs_sys and zlib_rs::Deflate. Oracle: the worker survives (no abort/panic/signal), canaries around next_out intact, every return value is one the zlib manual lists for that function, Z_FINISH with fresh space produces >= 1 byte per call or returns Z_STREAM_END and ends within the bound, Z_BUF_ERROR is never fatal (the session continues, finishes and its output round-trips). Non-trivial = >= 2 data-moving deflate calls and a perturbing operation (params/tune/prime/reset/copy/dictionary/header) between data-moving calls, or an output-starved stretch with memLevel <= 2; distinct by program fingerprint.";

fn documented(op: &Op, rc: i64) -> bool {
    if rc == -999 {
        return true; // not executed (outside the documented position of that call)
    }
    let rc = rc as i32;
    match op {
        Op::DInit { .. } => matches!(rc, Z_OK | Z_MEM_ERROR | Z_STREAM_ERROR | Z_VERSION_ERROR),
        Op::DDeflate { .. } => matches!(rc, Z_OK | Z_STREAM_END | Z_STREAM_ERROR | Z_BUF_ERROR),
        Op::DParams { .. } => matches!(rc, Z_OK | Z_STREAM_ERROR | Z_BUF_ERROR),
        Op::DTune { .. } | Op::DSetDict { .. } | Op::DGetDict { .. } | Op::DSetHeader { .. } | Op::DPending { .. } | Op::DReset { .. } | Op::DResetKeep { .. } => matches!(rc, Z_OK | Z_STREAM_ERROR),
        Op::DPrime { .. } => matches!(rc, Z_OK | Z_BUF_ERROR | Z_STREAM_ERROR | -999),
        Op::DSetHeader { .. } => matches!(rc, Z_OK | Z_STREAM_ERROR | -999),
        Op::DCopy => matches!(rc, Z_OK | Z_MEM_ERROR | Z_STREAM_ERROR),
        Op::DEnd { .. } => matches!(rc, Z_OK | Z_STREAM_ERROR | Z_DATA_ERROR),
        _ => true,
    }
}

fn program_case(t: &mut Tape, ctx: &Ctx, o: &mut Outcome) {
    let mut p = gen_program(t, true, 48);
    // deflate side only (the inflate side is C02's business); keep a few neutral ops
    p.ops.retain(|op| matches!(op, Op::DInit { .. } | Op::DDeflate { .. } | Op::DParams { .. } | Op::DTune { .. } | Op::DPrime { .. } | Op::DPending { .. } | Op::DBound { .. } | Op::DSetDict { .. } | Op::DGetDict { .. } | Op::DSetHeader { .. } | Op::DReset { .. } | Op::DResetKeep { .. } | Op::DCopy | Op::DEnd { .. }));
    // documented preconditions: valid pointers (no NULL length/buffer variants), valid header structs
    for op in p.ops.iter_mut() {
        match op {
            Op::DPending { null_pending, null_bits, .. } => {
                *null_pending = false;
                *null_bits = false;
            }
            Op::DBound { null, .. } => *null = false,
            Op::DSetDict { null, .. } => *null = false,
            Op::DGetDict { null_len, .. } => *null_len = false,
            Op::DPrime { bits, .. } => *bits = (*bits).clamp(0, 16),
            _ => {}
        }
    }
    // many primes in a row: the manual promises Z_BUF_ERROR when the internal buffer is full
    if t.chance(40) {
        let n = 1 + t.below(600);
        let v = t.u16() as i32;
        let at = p.ops.iter().position(|op| matches!(op, Op::DInit { .. })).map(|i| i + 1).unwrap_or(0);
        for _ in 0..n {
            p.ops.insert(at, Op::DPrime { which: 0, bits: 16, value: v });
        }
        if let Some(Op::DInit { wbits, .. }) = p.ops.get_mut(at.saturating_sub(1)) {
            if *wbits > 0 {
                *wbits = -(*wbits & 15).max(9);
            }
        }
    }
    p.ops.push(Op::DPending { which: 0, null_pending: false, null_bits: false });
    if std::env::var("VERIF_DEBUG").is_ok() {
        for (k, op) in p.ops.iter().enumerate() {
            eprintln!("op {:2} {}", k, op_name(op));
        }
        eprintln!("data {} bytes: {}", p.data.len(), crate::json::hex(&p.data[..p.data.len().min(80)]));
    }
    let ex = ARENAS.with(|ar| run_program_finish(&p, ar));
    let (ex, fin) = ex;
    for (k, op) in p.ops.iter().enumerate() {
        if !documented(op, ex.res[k].rc) {
            let name = format!("{:?}", op).split(|c: char| !c.is_alphanumeric()).next().unwrap_or("op").to_string();
            o.fail(format!("{}/undocumented-status", name), format!("operation {} {} returned {} which the zlib manual does not list for it; preceding: {}", k, op_name(op), ex.res[k].rc, p.ops[..k].iter().rev().take(5).rev().map(op_name).collect::<Vec<_>>().join(" ; ")));
            return;
        }
    }
    if let Some(m) = fin {
        o.fail("finish/no-progress-or-no-end", format!("{}; program: {}", m, p.ops.iter().take(30).map(op_name).collect::<Vec<_>>().join(" ; ")));
        return;
    }
    o.evals = p.ops.len() as u64;
    let mut moved = 0;
    let mut perturbed_between = false;
    let mut perturb_seen_after_move = false;
    for (k, op) in p.ops.iter().enumerate() {
        match op {
            Op::DDeflate { .. } if ex.res[k].din > 0 || ex.res[k].dout > 0 => {
                moved += 1;
                if perturb_seen_after_move {
                    perturbed_between = true;
                }
            }
            Op::DParams { .. } | Op::DTune { .. } | Op::DPrime { .. } | Op::DReset { .. } | Op::DResetKeep { .. } | Op::DCopy | Op::DSetDict { .. } | Op::DSetHeader { .. } => {
                if moved > 0 && ex.res[k].rc == 0 {
                    perturb_seen_after_move = true;
                }
            }
            _ => {}
        }
    }
    o.class("API program");
    if p.ops.iter().filter(|op| matches!(op, Op::DPrime { .. })).count() > 100 {
        o.class("hundreds of deflatePrime calls");
    }
    if moved >= 2 && perturbed_between {
        let mut fp = Fp::new();
        fp.bytes(format!("{:?}", p.ops).as_bytes()).bytes(&p.data[..p.data.len().min(64)]);
        o.nontrivial = Some(fp.0);
        if ctx.want_sample {
            o.sample = Some(J::obj().set("generator", J::s("program")).set("ops", J::A(p.ops.iter().take(16).map(|x| J::s(op_name(x))).collect())).set("n_ops", J::U(p.ops.len() as u64)).set("statuses", J::A(ex.res.iter().take(16).map(|r| J::I(r.rc)).collect())));
        }
    }
}

/// run the program on zlib-rs, then drive every live deflate stream to the end with Z_FINISH
fn run_program_finish(p: &Program, ar: &Arenas) -> (Exec, Option<String>) {
    // the interpreter ends all streams itself; to observe the finish loop we append explicit ops
    let mut p2 = Program { ops: p.ops.clone(), data: p.data.clone(), comp: p.comp.clone(), dict: p.dict.clone(), wild: p.wild, reset_as_reinit: false };
    let n0 = p2.ops.len();
    let fin_calls = 600usize;
    for w in 0..2 {
        for _ in 0..fin_calls {
            p2.ops.push(Op::DDeflate { which: w, in_len: 0, out_len: 2048, flush: Z_FINISH });
        }
    }
    let ex = run_program::<Rs>(&p2, ar);
    let mut problem = None;
    for w in 0..2 {
        let seg = &ex.res[n0 + w * fin_calls..n0 + (w + 1) * fin_calls];
        if seg[0].rc == Z_STREAM_ERROR as i64 {
            continue; // slot not live (never initialised, ended, or in an error state zlib documents)
        }
        let mut ended = false;
        for (i, r) in seg.iter().enumerate() {
            if r.rc == Z_STREAM_END as i64 {
                ended = true;
                break;
            }
            if r.rc == Z_STREAM_ERROR as i64 {
                // a finished stream answers further calls with STREAM_ERROR only after STREAM_END
                problem = Some(format!("slot {}: deflate(Z_FINISH) call {} returned Z_STREAM_ERROR before the stream ended", w, i + 1));
                break;
            }
            if r.dout == 0 && r.din == 0 {
                problem = Some(format!("slot {}: deflate(Z_FINISH) call {} with 2048 bytes of fresh output space moved nothing and returned {}", w, i + 1, r.rc));
                break;
            }
        }
        if problem.is_some() {
            break;
        }
        if !ended {
            problem = Some(format!("slot {}: {} deflate(Z_FINISH) calls with 2048 bytes of fresh output each did not reach Z_STREAM_END", w, fin_calls));
            break;
        }
    }
    let mut ex = ex;
    ex.res.truncate(n0);
    (ex, problem)
}

fn session_case(t: &mut Tape, ctx: &Ctx, o: &mut Outcome) {
    let mut po = PlanOpts::standard();
    po.allow_dict = true;
    po.tune_table_domain = false;
    let plan = gen_plan(t, &po);
    let wrapper = t.below(5) == 0;
    let sched = gen_inf_schedule(t);
    if std::env::var("VERIF_DEBUG").is_ok() {
        eprintln!("C06 session: {} data[{}] {} dict[{:?}] {:?} gz {} wrapper {} ops {:?}", plan.cfg.describe(), plan.data.len(), crate::json::hex(&plan.data[..plan.data.len().min(64)]), plan.dict.as_ref().map(|d| d.len()), plan.dict.as_ref().map(|d| crate::json::hex(&d[..d.len().min(40)])), plan.gz.is_some(), wrapper, plan.ops);
    }
    ARENAS.with(|ar| {
        let run = if wrapper {
            let mut p2 = plan.clone();
            p2.gz = None;
            run_deflate_with::<RustDef>(&p2, ar)
        } else {
            run_deflate::<Rs>(&plan, ar)
        };
        if run.init_rc != Z_OK {
            o.fail("init/status", format!("deflateInit2 rejected a valid configuration ({}): {}", plan.cfg.describe(), run.init_rc));
            return;
        }
        for (tag, sig, msg) in &run.violations {
            if *tag == "C06" {
                o.fail(sig.clone(), format!("{} [{}; {}; wrapper={}]", msg, plan.cfg.describe(), plan.describe_ops(), wrapper));
                return;
            }
        }
        if !run.finished {
            o.fail("session/not-finished", format!("legal session did not reach Z_STREAM_END (last rc {}) [{}; {}]", rc_name(run.last_rc), plan.cfg.describe(), plan.describe_ops()));
            return;
        }
        // BUF_ERROR is never fatal: sessions that saw one must still round-trip
        let saw_buf = run.calls.iter().any(|c| c.rc == Z_BUF_ERROR);
        if saw_buf {
            if let Some((sig, msg)) = roundtrip_check("after Z_BUF_ERROR", &plan, &run.out, &sched, ar) {
                o.fail(format!("buf-error-fatal/{}", sig), format!("{} [{}]", msg, plan.describe_ops()));
                return;
            }
            o.class("session with Z_BUF_ERROR, finished and round-tripped");
        }
        o.class("legal session");
        let starved = run.one_byte_stretch >= 8 && plan.cfg.mem_level <= 2;
        if starved {
            o.class("output-starved, memLevel <= 2");
        }
        let moving = run.calls.iter().filter(|c| c.din > 0 || c.dout > 0).count();
        let perturb = !run.switches.is_empty() || plan.ops.iter().any(|op| matches!(op, DefOp::Tune { .. }));
        if (moving >= 2 && perturb) || starved {
            let mut fp = Fp::new();
            fp.bytes(plan.cfg.describe().as_bytes()).bytes(&plan.data).bytes(plan.describe_ops().as_bytes()).add(wrapper as u64);
            o.nontrivial = Some(fp.0);
            if ctx.want_sample {
                o.sample = Some(crate::props::c01::sample(&plan, &run, if wrapper { "zlib_rs::Deflate" } else { "libz_rs_sys" }).set("generator", J::s("session")));
            }
        }
    });
}

pub fn case(tape: &[u8], ctx: &Ctx) -> Outcome {
    let mut o = Outcome::new();
    let mut t = Tape::new(tape);
    if t.below(3) == 0 {
        session_case(&mut t, ctx, &mut o);
    } else {
        program_case(&mut t, ctx, &mut o);
    }
    o
}

pub fn property() -> Property {
    Property { id: "C06", rule: RULE, phases: vec![Phase::Prop { name: "deflate API programs and sessions", f: case, quick: 500_000, thorough: 5_000_000, max_tape: 420 }] }
}
