//! C07 — deflateBound / compressBound are true upper bounds on compressed size.
use crate::api::*;
use crate::edef::make_gz_header;
use crate::einf::*;
use crate::gen::*;
use crate::json::{hex_cut, J};
use crate::refimpl::rgen::gen_gz_fields;
use crate::refimpl::rgzh::Wrap;
use crate::runner::*;
use crate::tape::{Fp, Tape, Xs};
use core::ffi::c_ulong;

pub const RULE: &str = "tape -> DeflateConfig x optional gzip header (extra/name/comment/hcrc of 0..65535 bytes) x optional preset dictionary x input length n (0..64 densely; around 127k/128k, lit_bufsize-1, 507, 32767, 65535/6, multiples of the window; up to 300 KB) x input family {uniform random, bytes >= 144, alphabet {0,143,144,255}, random with sparse repeats, runs, text, recipes}. Oracle: B = deflateBound(strm, n) after init/header/dictionary; ONE deflate(Z_FINISH) with avail_in = n and avail_out = B (guard page directly after the B bytes) must return Z_STREAM_END with total_out <= B; compress2/compress into compressBound(n) and compress_slice into compress_bound(n) must return Z_OK. A non-STREAM_END result is classified by one more call with spare room: 0 further bytes = 'exact fit, end not reported', > 0 bytes = bound exceeded. Non-trivial = n >= 1 and (non-default config or adversarial family); distinct by (config, n, family, header, dictionary).";

const NS: [usize; 40] = [
    0, 1, 2, 3, 7, 8, 9, 15, 16, 17, 31, 32, 63, 64, 126, 127, 128, 129, 254, 255, 256, 257, 506, 507, 508, 511, 512, 1023, 1024, 4095, 4096, 16383, 32767, 32768, 65535, 65536, 65537, 100000, 200000, 300000,
];

fn family_data(t: &mut Tape, n: usize, wbits: u32) -> (Vec<u8>, &'static str) {
    let fam = t.below(8);
    let seed = t.u16() as u64;
    let mut x = Xs::new(seed ^ 0xB07D);
    let mut d = Vec::with_capacity(n);
    let name;
    match fam {
        0 => {
            name = "uniform random";
            for _ in 0..n {
                d.push((x.next() >> 32) as u8);
            }
        }
        1 => {
            name = "bytes >= 144";
            for _ in 0..n {
                d.push(144 + x.below(112) as u8);
            }
        }
        2 => {
            name = "alphabet {0,143,144,255}";
            for _ in 0..n {
                d.push([0u8, 143, 144, 255][x.below(4)]);
            }
        }
        3 => {
            name = "random with sparse zeros";
            for _ in 0..n {
                d.push(if x.below(40) == 0 { 0 } else { (x.next() >> 32) as u8 });
            }
        }
        4 => {
            name = "random with short repeats";
            while d.len() < n {
                if x.below(3) == 0 && d.len() > 4 {
                    let dist = 1 + x.below(d.len().min(1 << wbits));
                    for _ in 0..3 {
                        let k = d.len();
                        d.push(d[k - dist]);
                    }
                } else {
                    d.push((x.next() >> 32) as u8);
                }
            }
            d.truncate(n);
        }
        5 => {
            name = "run";
            let b = t.u8();
            d.resize(n, b);
        }
        _ => {
            name = "recipe";
            d = gen_data(t, wbits, n);
            while d.len() < n {
                d.push((x.next() >> 32) as u8);
            }
        }
    }
    (d, name)
}

pub fn case(tape: &[u8], ctx: &Ctx) -> Outcome {
    let mut o = Outcome::new();
    let mut t = Tape::new(tape);
    let cfg = gen_cfg(&mut t);
    let lit_bufsize = 1usize << (cfg.mem_level + 6);
    let w = 1usize << cfg.eff_wbits();
    let n = match t.below(6) {
        0 => t.below(65),
        1 => t.pick(&[lit_bufsize - 2, lit_bufsize - 1, lit_bufsize, lit_bufsize + 1, 4 * lit_bufsize - 5, 4 * lit_bufsize, w - 1, w, w + 1, 2 * w, 2 * w + 1, 3 * w]),
        2 => {
            let k = 1 + t.below(40);
            t.pick(&[127 * k, 128 * k, 128 * k - 1, 128 * k + 1])
        }
        3 => t.below(5000),
        _ => t.pick(&NS),
    }
    .min(300_000);
    let (data, fam) = family_data(&mut t, n, cfg.eff_wbits());
    let gz = if cfg.wrap == Wrap::Gzip && t.chance(128) { { let big = t.remaining() % 2 == 0; Some(gen_gz_fields(&mut t, big)) } } else { None };
    let dict = if cfg.wrap != Wrap::Gzip && t.chance(64) { Some(crate::edef::gen_dict(&mut t, w, &data)) } else { None };
    let helper = t.below(6);
    ARENAS.with(|ar| {
        // ---- streaming API with deflateBound --------------------------------------------
        let mut strm = zs();
        let rc = unsafe { Rs::deflateInit2(&mut strm, cfg.level, 8, cfg.window_bits_arg(), cfg.mem_level, cfg.strategy) };
        if rc != Z_OK {
            o.fail("init/status", format!("deflateInit2 rejected a valid configuration ({}): {}", cfg.describe(), rc));
            return;
        }
        let mut hold = None;
        if let Some(f) = &gz {
            let mut h = make_gz_header(f);
            let r = unsafe { Rs::deflateSetHeader(&mut strm, &mut *h.head) };
            if r != Z_OK {
                o.fail("deflateSetHeader/status", format!("deflateSetHeader on a gzip stream returned {}", r));
            }
            hold = Some(h);
        }
        if let Some(d) = &dict {
            let dp = ar.dict.put_right(&d[..d.len().min(ar.dict.cap)]);
            let r = unsafe { Rs::deflateSetDictionary(&mut strm, dp, d.len().min(ar.dict.cap) as u32) };
            if r != Z_OK {
                o.fail("deflateSetDictionary/status", format!("deflateSetDictionary returned {}", r));
            }
        }
        let b = unsafe { Rs::deflateBound(&mut strm, n as c_ulong) } as usize;
        if b > ar.out.cap - 64 {
            unsafe { Rs::deflateEnd(&mut strm) };
            return;
        }
        let ip = ar.inp.put_right(&data);
        let op = ar.out.right(b);
        strm.next_in = ip;
        strm.avail_in = n as u32;
        strm.next_out = op;
        strm.avail_out = b as u32;
        let rc = unsafe { Rs::deflate(&mut strm, Z_FINISH) };
        let used = b - strm.avail_out as usize;
        let mut slack = b as i64 - used as i64;
        if rc != Z_STREAM_END {
            // classify with one more call that has room to spare
            let extra_cap = 1 << 16;
            let op2 = ar.out.right(extra_cap);
            strm.next_out = op2;
            strm.avail_out = extra_cap as u32;
            let rc2 = unsafe { Rs::deflate(&mut strm, Z_FINISH) };
            let more = extra_cap - strm.avail_out as usize;
            if more == 0 && rc2 == Z_STREAM_END && strm.avail_in == 0 {
                o.fail(
                    format!("bound/exact-fit-end-not-reported/{:?}", cfg.wrap).to_lowercase(),
                    format!("deflate(Z_FINISH) into deflateBound({}) = {} bytes filled the buffer exactly and returned {} instead of Z_STREAM_END (0 further bytes on the next call); {} family {}", n, b, rc_name(rc), cfg.describe(), fam),
                );
            } else {
                o.fail(
                    "bound/exceeded",
                    format!("deflate(Z_FINISH) into deflateBound({}) = {} bytes returned {} with {} input bytes left; the stream needs {} more bytes (next call: {}); {} family {} gz_header {} dict {:?}", n, b, rc_name(rc), strm.avail_in, more, rc_name(rc2), cfg.describe(), fam, gz.is_some(), dict.as_ref().map(|d| d.len())),
                );
            }
            slack = -(more as i64);
        }
        unsafe { Rs::deflateEnd(&mut strm) };
        drop(hold);
        if o.fail.is_some() {
            return;
        }
        // ---- one-shot helpers with compressBound -----------------------------------------------
        if helper == 0 && n <= 200_000 {
            let level = cfg.level;
            let cb = unsafe { Rs::compressBound(n as c_ulong) } as usize;
            let op = ar.out.right(cb);
            let mut dl = cb as c_ulong;
            let rc = unsafe { Rs::compress2(op, &mut dl, ip, n as c_ulong, level) };
            if rc != Z_OK || dl as usize > cb {
                o.fail("compressBound/compress2", format!("compress2(level {}) of {} bytes ({}) into compressBound = {} bytes returned {} (destLen {})", level, n, fam, cb, rc_name(rc), dl));
                return;
            }
            let mut dl = cb as c_ulong;
            let rc = unsafe { Rs::compress(op, &mut dl, ip, n as c_ulong) };
            if rc != Z_OK {
                o.fail("compressBound/compress", format!("compress of {} bytes ({}) into compressBound = {} bytes returned {}", n, fam, cb, rc_name(rc)));
                return;
            }
            o.class("compress2 into compressBound");
        }
        if helper == 1 && n <= 200_000 {
            let cb = zlib_rs::compress_bound(n);
            let op = ar.out.right(cb);
            let out = unsafe { core::slice::from_raw_parts_mut(op, cb) };
            let conf = zlib_rs::DeflateConfig { level: cfg.level, ..Default::default() };
            let (res, rc) = zlib_rs::compress_slice(out, &data, conf);
            if rc as i32 != Z_OK || res.len() > cb {
                o.fail("compress_bound/compress_slice", format!("compress_slice(level {}) of {} bytes ({}) into compress_bound = {} bytes returned {}", cfg.level, n, fam, cb, rc_name(rc as i32)));
                return;
            }
            o.class("compress_slice into compress_bound");
        }
        o.class(if slack == 0 {
            "slack 0"
        } else if slack <= 4 {
            "slack 1..4"
        } else if slack <= 16 {
            "slack 5..16"
        } else {
            "slack > 16"
        });
        if cfg.level == 0 {
            o.class("level 0");
        }
        if gz.is_some() {
            o.class("custom gzip header");
        }
        if dict.is_some() {
            o.class("dictionary");
        }
        let default_cfg = cfg.level == -1 && cfg.strategy == 0 && cfg.wbits == 15 && cfg.mem_level == 8 && cfg.wrap == Wrap::Zlib;
        if n >= 1 && (!default_cfg || fam != "recipe") {
            let mut fp = Fp::new();
            fp.bytes(cfg.describe().as_bytes()).add(n as u64).bytes(fam.as_bytes()).bytes(&data[..data.len().min(64)]).add(gz.is_some() as u64).add(dict.as_ref().map_or(0, |d| d.len() as u64 + 1));
            o.nontrivial = Some(fp.0);
            if ctx.want_sample {
                o.sample = Some(J::obj().set("config", J::s(cfg.describe())).set("n", J::U(n as u64)).set("family", J::s(fam)).set("bound", J::U(b as u64)).set("compressed", J::U(used as u64)).set("gz_header", J::B(gz.is_some())).set("dict_len", J::I(dict.as_ref().map_or(-1, |d| d.len() as i64))).set("head", J::s(hex_cut(&data, 16))));
            }
        }
    });
    o
}

pub fn property() -> Property {
    Property { id: "C07", rule: RULE, phases: vec![Phase::Prop { name: "single-Finish compression into deflateBound / compressBound", f: case, quick: 800_000, thorough: 12_000_000, max_tape: 200 }] }
}
