//! C08 — stream end is reported only after the checksum and length trailer verified.
use crate::api::*;
use core::ffi::c_int;
use crate::einf::*;
use crate::gen::*;
use crate::json::{hex_cut, J};
use crate::props::c03::{DecMode, MWrap};
use crate::refimpl::rck;
use crate::refimpl::rdec::{DecOpts, Verdict};
use crate::refimpl::rgzh::{decode_stream, parse_gzip_header, parse_zlib_header, HdrErr, Wrap};
use crate::runner::*;
use crate::tape::{Fp, Tape};

pub const RULE: &str = "tape -> zlib or gzip stream (R-GEN body rich in stored blocks, or zlib-rs/zlib-ng encoder output; gzip with/without FHCRC, extra/name/comment) then one targeted corruption that keeps the deflate syntax valid {bit flip in a stored-block payload byte, in each trailer byte, in a header byte covered by FHCRC, none} or an arbitrary mutation; x decoder mode {zlib,gzip,auto} x fresh stream or stream reused (part of the intact stream, optionally an inflateSync that fails, inflateReset) x 3 schedules stressing Window::extend (per-call output >= 32768, ring wrap, 1-byte calls, trailer split at every offset). Oracle on EVERY stream end: the trailer bytes just consumed equal bitwise Adler-32 (BE) / CRC-32 + ISIZE (LE) of the bytes actually output, the FHCRC equals CRC-32 of the header bytes; payload/trailer/FHCRC-covered corruptions must end in DATA_ERROR. Plus one gzip stream of 4 GiB + 3 MiB (made by zlib-ng; ISIZE = length mod 2^32), intact and with ISIZE / CRC corrupted, decoded by zlib-rs and compared with the data. Non-trivial = the reference decoder reaches the final block (verdict hinges on the trailer) and the case is a corruption or an intact stream decoded in >= 3 calls; distinct by (bytes, mode, schedules).";

/// universal oracle: whenever zlib-rs says STREAM_END in a wrapped mode, the consumed trailer must match the output
pub fn check_end(bytes: &[u8], mode: &DecMode, run: &InfRun) -> Option<(String, String)> {
    if run.status != Status::StreamEnd {
        return None;
    }
    let wrap = mode.resolve(bytes)?;
    let n = run.total_in as usize;
    if n > bytes.len() {
        return Some(("end/total_in-beyond-input".into(), format!("STREAM_END with total_in {} > input length {}", n, bytes.len())));
    }
    if run.total_out as usize != run.out.len() {
        return Some(("end/total_out".into(), format!("STREAM_END with total_out {} but {} bytes were written", run.total_out, run.out.len())));
    }
    match wrap {
        Wrap::Raw => None,
        Wrap::Zlib => {
            if n < 6 {
                return Some(("end/zlib-too-short".into(), format!("STREAM_END after only {} input bytes of a zlib stream", n)));
            }
            match parse_zlib_header(bytes, mode.w as u8) {
                Ok(_) => {}
                Err(e) => return Some(("end/zlib-header-invalid".into(), format!("STREAM_END although the zlib header is {:?}", e))),
            }
            let want = rck::adler32(1, &run.out);
            let got = u32::from_be_bytes([bytes[n - 4], bytes[n - 3], bytes[n - 2], bytes[n - 1]]);
            if want != got {
                return Some(("end/adler-mismatch".into(), format!("STREAM_END but the consumed trailer holds Adler-32 {:#010x} while the {} bytes output have Adler-32 {:#010x}", got, run.out.len(), want)));
            }
            None
        }
        Wrap::Gzip => {
            let h = match parse_gzip_header(bytes) {
                Ok(h) => h,
                Err(HdrErr::Invalid(r)) => return Some(("end/gzip-header-invalid".into(), format!("STREAM_END although the gzip header is invalid: {}", r))),
                Err(HdrErr::Truncated) => return Some(("end/gzip-header-truncated".into(), "STREAM_END although the gzip header is incomplete".into())),
            };
            if n < h.len + 8 {
                return Some(("end/gzip-too-short".into(), format!("STREAM_END after {} input bytes; header alone is {} bytes and the trailer 8", n, h.len)));
            }
            let crc = u32::from_le_bytes([bytes[n - 8], bytes[n - 7], bytes[n - 6], bytes[n - 5]]);
            let isz = u32::from_le_bytes([bytes[n - 4], bytes[n - 3], bytes[n - 2], bytes[n - 1]]);
            let want = rck::crc32(0, &run.out);
            if crc != want {
                return Some(("end/crc-mismatch".into(), format!("STREAM_END but the consumed trailer holds CRC-32 {:#010x} while the {} bytes output have CRC-32 {:#010x}", crc, run.out.len(), want)));
            }
            if isz != run.out.len() as u32 {
                return Some(("end/isize-mismatch".into(), format!("STREAM_END but the consumed trailer holds ISIZE {} while {} bytes were output", isz, run.out.len())));
            }
            None
        }
    }
}

fn trailer_sched(t: &mut Tape, len: usize) -> InfSchedule {
    let style = t.below(6);
    match style {
        0 => {
            // everything but the last k bytes, then byte by byte
            let k = 1 + t.below(12);
            InfSchedule { steps: vec![InfStep { in_chunk: len.saturating_sub(k), out_chunk: 1 << 20, flush: Z_NO_FLUSH }], cycles: 1, in_right: true, out_right: true, tail_in: 1, tail_out: 1 << 20 }
        }
        1 => {
            // big output per call (>= window): Window::extend `len >= wsize` branch
            let oc = t.pick(&[32768usize, 32769, 40000, 65536, 100000]);
            InfSchedule { steps: vec![], cycles: 0, in_right: true, out_right: t.bool(), tail_in: t.pick(&[usize::MAX, 1000, 40000]), tail_out: oc }
        }
        2 => {
            // ring wrap: output chunks that do not divide the window
            let oc = t.pick(&[1usize, 3, 100, 1000, 5000, 20000, 32767]);
            InfSchedule { steps: vec![], cycles: 0, in_right: true, out_right: true, tail_in: t.pick(&[usize::MAX, 1, 16, 300]), tail_out: oc }
        }
        3 => {
            // two-piece split at a tape-chosen point near the end
            let k = t.below(len.min(24) + 1);
            InfSchedule { steps: vec![InfStep { in_chunk: len - k, out_chunk: 1 << 20, flush: t.pick(&INF_FLUSHES) }], cycles: 1, in_right: true, out_right: true, tail_in: usize::MAX, tail_out: 1 << 20 }
        }
        _ => gen_inf_schedule(t),
    }
}

pub fn case(tape: &[u8], ctx: &Ctx) -> Outcome {
    let mut o = Outcome::new();
    let mut t = Tape::new(tape);
    let so = SubjectOpts { allow_noise: false, allow_mut: false, allow_fault: false, allow_prefix: false, max_out: 150_000, wraps: &[Wrap::Zlib, Wrap::Gzip, Wrap::Gzip], big_gz_fields: false };
    let mut s = gen_subject(&mut t, &so);
    if !matches!(s.label, Label::Valid | Label::Encoded(_)) || s.trailing > 0 {
        // trailing garbage subjects are fine too, but keep the corruption offsets simple
        s.bytes.truncate(s.stream_len);
        s.trailing = 0;
    }
    // reference decode of the intact stream to find stored payload ranges
    let intact = decode_stream(&s.bytes, s.wrap, 15, &DecOpts::lenient());
    if intact.verdict != Verdict::Valid {
        o.internal = Some(format!("C08: generated stream is not valid per R-DEC: {:?}", intact.verdict));
        return o;
    }
    let body = intact.body.as_ref().unwrap();
    let mut stored_ranges: Vec<(usize, usize)> = Vec::new();
    for b in &body.blocks {
        if b.btype == 0 && b.out_end > b.out_start {
            let hdr_end_bit = ((b.start_bit + 3 + 7) & !7) + 32;
            let off = intact.body_off + hdr_end_bit / 8;
            stored_ranges.push((off, b.out_end - b.out_start));
        }
    }
    let tlen = if s.wrap == Wrap::Gzip { 8 } else { 4 };
    let kind = t.below(8);
    let mut bytes = s.bytes.clone();
    let mut corruption = "none";
    let mut must_reject = false;
    match kind {
        0 | 1 if !stored_ranges.is_empty() => {
            let (off, n) = stored_ranges[t.below(stored_ranges.len())];
            let at = off + t.below(n);
            bytes[at] ^= 1 << t.below(8);
            corruption = "stored payload bit flip";
            must_reject = true;
        }
        2 | 3 => {
            let at = bytes.len() - tlen + t.below(tlen);
            bytes[at] ^= 1 << t.below(8);
            corruption = "trailer bit flip";
            must_reject = true;
        }
        4 if s.wrap == Wrap::Gzip => {
            let h = intact.gz.as_ref().unwrap();
            if h.hcrc_flag {
                // bytes 4..10 (mtime, xfl, os) or any later header byte incl. the CRC16 itself
                let at = if t.bool() || h.len <= 12 { 4 + t.below(6) } else { 10 + t.below(h.len - 10) };
                bytes[at] ^= 1 << t.below(8);
                corruption = "FHCRC-covered header bit flip";
                // flipping a field byte may move field boundaries, but whatever the parse, the
                // universal oracle applies; rejection is certain only for the fixed-position bytes
                must_reject = at < 10;
            }
        }
        5 => {
            let other = t.bytes(8);
            let m = crate::refimpl::rgen::mutate(&mut t, &mut bytes, &other);
            corruption = m.kind;
        }
        _ => {}
    }
    let w = if t.chance(200) { 15 } else { 0 };
    let need_ok = s.wrap != Wrap::Zlib || (1usize << s.announced) >= s.max_dist;
    let mode = DecMode {
        wrap: match (s.wrap, t.below(3)) {
            (_, 0) => MWrap::Auto,
            (Wrap::Zlib, _) => MWrap::Zlib,
            _ => MWrap::Gzip,
        },
        w: if w == 0 && need_ok && corruption != "byte-replace" && kind != 5 { 0 } else { 15 },
    };
    let scheds: Vec<InfSchedule> = (0..3).map(|_| trailer_sched(&mut t, bytes.len())).collect();
    let mut io = InfOpts::new(mode.arg());
    // sometimes on a reused stream: the beginning of the intact stream, an inflateSync that finds no marker (fails),
    // inflateReset - checking is still "enabled (the default)" then, so every oracle applies unchanged
    let reuse = t.chance(70);
    let pre = (1 + t.below(3), t.pick(&[1usize, 3, 11, 100, 100_000]), t.pick(&[0usize, 1, 50, 100_000]), t.bool());
    if reuse {
        io.prehistory = Some(Prehistory { bytes: &s.bytes, calls: pre.0, in_chunk: pre.1, out_chunk: pre.2, failed_sync: pre.3 });
    }
    let mut max_calls = 0;
    ARENAS.with(|ar| {
        for (k, sc) in std::iter::once(&InfSchedule::one_shot()).chain(scheds.iter()).enumerate() {
            let r = run_inflate::<Rs>(&bytes, sc, &io, ar);
            max_calls = max_calls.max(r.ncalls);
            if let Some((sig, msg)) = check_end(&bytes, &mode, &r) {
                o.fail(sig, format!("{} [corruption: {}; schedule {}: {}]", msg, corruption, k, sc.describe()));
                return;
            }
            if must_reject && r.status != Status::DataError && r.status != Status::CallLimit {
                o.fail(
                    format!("corruption-accepted/{}", corruption.replace(' ', "-")),
                    format!("{} of a valid {:?} stream ended with status {} (total_in {} of {}, {} bytes out) instead of DATA_ERROR [schedule {}: {}]", corruption, s.wrap, status_name(r.status), r.total_in, bytes.len(), r.out.len(), k, sc.describe()),
                );
                return;
            }
            if corruption == "none" && r.status != Status::StreamEnd && r.status != Status::CallLimit {
                o.fail("intact-rejected", format!("intact {:?} stream ended with status {} (msg {:?}) [schedule {}: {}]", s.wrap, status_name(r.status), r.msg, k, sc.describe()));
                return;
            }
        }
    });
    o.evals = 4;
    if reuse {
        o.class(if pre.3 { "stream reused after partial stream + failed inflateSync + inflateReset" } else { "stream reused after partial stream + inflateReset" });
    }
    o.class(match corruption {
        "none" => "intact",
        "stored payload bit flip" => "stored payload bit flip",
        "trailer bit flip" => "trailer bit flip",
        "FHCRC-covered header bit flip" => "FHCRC-covered header bit flip",
        _ => "arbitrary mutation",
    });
    if s.wrap == Wrap::Gzip {
        o.class("gzip");
    } else {
        o.class("zlib");
    }
    if intact.gz.as_ref().map_or(false, |h| h.hcrc_flag) {
        o.class("gzip with FHCRC");
    }
    if s.out.len() > 32768 {
        o.class("output > 32 KiB");
    }
    if corruption != "none" || max_calls >= 3 {
        let mut fp = Fp::new();
        fp.bytes(&bytes).add(mode.arg() as u64);
        for sc in &scheds {
            fp.bytes(sc.describe().as_bytes());
        }
        o.nontrivial = Some(fp.0);
        if ctx.want_sample {
            o.sample = Some(
                J::obj()
                    .set("wrap", J::s(format!("{:?}", s.wrap)))
                    .set("source", J::s(format!("{:?}", s.label)))
                    .set("corruption", J::s(corruption))
                    .set("decoder_windowBits", J::I(mode.arg() as i64))
                    .set("len", J::U(bytes.len() as u64))
                    .set("out_len", J::U(s.out.len() as u64))
                    .set("tail", J::s(hex_cut(&bytes[bytes.len().saturating_sub(12)..], 12)))
                    .set("schedules", J::A(scheds.iter().map(|x| J::s(x.describe())).collect())),
            );
        }
    }
    o
}

// ---- streams longer than 4 GiB: "length mod 2^32" ------------------------------------------------------------------

/// the i-th MiB of the huge logical stream: zeros with a 64-byte stamp that depends on i
fn huge_block(i: u64, buf: &mut [u8]) {
    for b in buf.iter_mut() {
        *b = 0;
    }
    let mut x = crate::tape::Xs::new(0x4B1D ^ i);
    for b in buf[..64].iter_mut() {
        *b = x.next() as u8;
    }
}

/// gzip stream (made by zlib-ng, level 1) of `blocks` MiB; returns (compressed, CRC-32 by zlib-ng, length)
fn huge_stream(blocks: u64) -> Option<(Vec<u8>, u32, u64)> {
    let mut strm = zs();
    if unsafe { Ng::deflateInit2(&mut strm, 1, 8, 31, 8, 0) } != Z_OK {
        return None;
    }
    let mut comp: Vec<u8> = Vec::new();
    let mut obuf = vec![0u8; 1 << 20];
    let mut ibuf = vec![0u8; 1 << 20];
    let mut crc: std::ffi::c_ulong = 0;
    for i in 0..blocks {
        huge_block(i, &mut ibuf);
        crc = unsafe { crate::api::ngsys::crc32(crc, ibuf.as_ptr(), ibuf.len() as u32) };
        strm.next_in = ibuf.as_ptr();
        strm.avail_in = ibuf.len() as u32;
        let flush = if i + 1 == blocks { Z_FINISH } else { Z_NO_FLUSH };
        loop {
            strm.next_out = obuf.as_mut_ptr();
            strm.avail_out = obuf.len() as u32;
            let rc = unsafe { Ng::deflate(&mut strm, flush) };
            comp.extend_from_slice(&obuf[..obuf.len() - strm.avail_out as usize]);
            if rc == Z_STREAM_END || (flush == Z_NO_FLUSH && strm.avail_in == 0 && strm.avail_out != 0) {
                break;
            }
            if rc != Z_OK && rc != Z_BUF_ERROR {
                unsafe { Ng::deflateEnd(&mut strm) };
                return None;
            }
        }
    }
    unsafe { Ng::deflateEnd(&mut strm) };
    Some((comp, crc as u32, blocks << 20))
}

/// decode with zlib-rs, 3 MiB of output space per call; returns (final rc, bytes output, output equals the pattern)
fn huge_inflate(comp: &[u8]) -> (c_int, u64, bool, u64) {
    let mut strm = zs();
    if unsafe { Rs::inflateInit2(&mut strm, 47) } != Z_OK {
        return (Z_STREAM_ERROR, 0, false, 0);
    }
    let mut obuf = vec![0u8; 3 << 20];
    let mut want = vec![0u8; 1 << 20];
    let (mut pos, mut produced, mut same) = (0usize, 0u64, true);
    let mut rc;
    loop {
        let ic = (comp.len() - pos).min(1 << 20);
        strm.next_in = comp[pos..].as_ptr();
        strm.avail_in = ic as u32;
        strm.next_out = obuf.as_mut_ptr();
        strm.avail_out = obuf.len() as u32;
        rc = unsafe { Rs::inflate(&mut strm, Z_NO_FLUSH) };
        pos += ic - strm.avail_in as usize;
        let n = obuf.len() - strm.avail_out as usize;
        // compare with the pattern, MiB by MiB
        let mut off = 0usize;
        while off < n && same {
            let abs = produced + off as u64;
            let blk = abs >> 20;
            let inb = (abs & 0xFFFFF) as usize;
            let take = (n - off).min((1 << 20) - inb);
            huge_block(blk, &mut want);
            if obuf[off..off + take] != want[inb..inb + take] {
                same = false;
            }
            off += take;
        }
        produced += n as u64;
        if rc != Z_OK || (n == 0 && ic == 0) {
            break;
        }
    }
    let total_out = strm.total_out as u64;
    unsafe { Rs::inflateEnd(&mut strm) };
    (rc, produced, same, total_out)
}

fn huge_cases(ctx: &Ctx, sink: &mut dyn FnMut(&[u8], Option<Outcome>) -> bool) {
    // one worker does it: ~4 GiB + 3 MiB through zlib-ng's deflate once and zlib-rs's inflate three times
    if ctx.worker != 0 || std::env::var("VERIF_NO_HUGE").is_ok() {
        return;
    }
    let blocks: u64 = 4096 + 3;
    let (comp, crc, len) = match huge_stream(blocks) {
        Some(x) => x,
        None => return,
    };
    let n = comp.len();
    let isize_le = ((len & 0xFFFF_FFFF) as u32).to_le_bytes();
    for variant in 0u8..3 {
        if !sink(&[variant], None) {
            return;
        }
        let mut o = Outcome::new();
        let mut c = comp.clone();
        let what = match variant {
            0 => "intact",
            1 => {
                // ISIZE holds a value that is right only if lengths are NOT taken mod 2^32 ... there is no such
                // 32-bit value; instead: the length of the stream minus 4 GiB plus one
                let v = ((len & 0xFFFF_FFFF) as u32).wrapping_add(1).to_le_bytes();
                c[n - 4..].copy_from_slice(&v);
                "ISIZE off by one"
            }
            _ => {
                c[n - 8] ^= 0x10;
                "CRC-32 bit flipped"
            }
        };
        let trailer_ok = c[n - 8..n - 4] == crc.to_le_bytes() && c[n - 4..] == isize_le;
        let (rc, produced, same, total_out) = huge_inflate(&c);
        if variant == 0 && !trailer_ok {
            o.internal = Some("zlib-ng's trailer of the huge stream is not CRC-32 / length mod 2^32 of the input".into());
        } else if !same {
            o.fail("huge/output-differs", format!("{} MiB stream ({}): the output differs from the data that was compressed", blocks, what));
        } else if variant == 0 && (rc != Z_STREAM_END || produced != len || total_out != len) {
            o.fail("huge/valid-stream-not-accepted", format!("gzip stream of {} bytes (> 4 GiB, ISIZE = length mod 2^32 = {}): inflate ended with {} after {} bytes, total_out {}", len, len & 0xFFFF_FFFF, rc_name(rc), produced, total_out));
        } else if variant != 0 && rc == Z_STREAM_END {
            o.fail("huge/corrupt-trailer-accepted", format!("gzip stream of {} bytes with {}: inflate reported Z_STREAM_END", len, what));
        } else if variant != 0 && rc != Z_DATA_ERROR {
            o.fail("huge/status", format!("gzip stream of {} bytes with {}: inflate ended with {}", len, what, rc_name(rc)));
        }
        o.class("stream longer than 4 GiB (length mod 2^32)");
        let mut fp = Fp::new();
        fp.add(0x4_0000_0000 + variant as u64);
        o.nontrivial = Some(fp.0);
        if ctx.want_sample && variant == 0 {
            o.sample = Some(J::obj().set("kind", J::s("gzip stream > 4 GiB")).set("bytes_out", J::U(len)).set("compressed", J::U(n as u64)).set("isize_field", J::U(len & 0xFFFF_FFFF)));
        }
        if !sink(&[variant], Some(o)) {
            return;
        }
    }
}

fn huge_replay(tape: &[u8], ctx: &Ctx) -> Outcome {
    // replay = run the phase again on a context that owns worker 0 and report the variant's outcome
    let want = tape.first().copied().unwrap_or(0);
    let mut found: Option<Outcome> = None;
    let c2 = Ctx { tier: ctx.tier, want_sample: false, known: ctx.known.clone(), replay: true, worker: 0, nworkers: 1, seed: ctx.seed, variant: ctx.variant.clone() };
    let mut sink = |b: &[u8], o: Option<Outcome>| -> bool {
        if let Some(o) = o {
            if b.first().copied() == Some(want) {
                found = Some(o);
                return false;
            }
        }
        true
    };
    huge_cases(&c2, &mut sink);
    found.unwrap_or_else(Outcome::new)
}

pub fn property() -> Property {
    Property { id: "C08", rule: RULE, phases: vec![Phase::Prop { name: "wrapped streams x corruptions x trailer schedules", f: case, quick: 250_000, thorough: 3_000_000, max_tape: 300 }, Phase::Enum { name: "gzip stream longer than 4 GiB: intact, ISIZE off by one, CRC bit flipped", f: huge_cases, replay: huge_replay }] }
}
