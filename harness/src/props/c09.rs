//! C09 — adler32/crc32 and their combine functions equal the mathematical definitions.
use crate::json::J;
use crate::refimpl::rck;
use crate::runner::*;
use crate::tape::{Fp, Tape, Xs};

pub const RULE: &str = "proptest phase: tape -> (function in {adler32,crc32,adler32_z,crc32_z,adler32_combine,crc32_combine,crc32_combine_gen+op, piecewise}, CPU mask via hook H1, valid start value, length from a skewed table up to 70000, alignment 0..63, data family {0xFF,0x00,random,ramp,tape bytes}, split points, len2); oracle = bitwise CRC-32 / per-byte-modulo Adler-32 / GF(2) square-and-multiply from the definitions. enumeration phase: every length 0..=1100 x 64 alignments x 3 families x 3 starts and every length 0..=16784 at 4 alignments, for each implementation mask. Non-trivial = length >= 64 (SIMD fold entered) or an NMAX=5552 boundary crossed or combine with len2 >= 2^32; distinct by (function, mask, length, alignment, family, start class, len2).";

const MASKS: [u32; 4] = [0, 4, 16, 31];

/// masks that are meaningful for the build variant: the avx512 build selects AVX-512/AVX2 Adler at
/// compile time (masking AVX2 there only trips an internal assert of the hook's own making), the
/// scalar build has every probe false already.
fn masks(ctx: &Ctx) -> &'static [u32] {
    match ctx.variant.as_str() {
        "avx512" => &[0, 16],
        "scalar" => &[0],
        _ => &MASKS,
    }
}

fn set_mask(m: u32) {
    zlib_rs::verif::set_cpu_mask(m);
}

pub struct Aligned {
    v: Vec<u8>,
}
impl Aligned {
    pub fn new(cap: usize) -> Self {
        Aligned { v: vec![0u8; cap + 128] }
    }
    /// slice of length `len` whose start address is congruent to `al` mod 64
    pub fn at(&mut self, al: usize, len: usize) -> &mut [u8] {
        let base = self.v.as_ptr() as usize;
        let off = (64 - (base % 64) + al) % 64;
        &mut self.v[off..off + len]
    }
}

fn fill(family: usize, seed: u64, out: &mut [u8], tape_bytes: &[u8]) {
    match family {
        0 => out.iter_mut().for_each(|b| *b = 0xff),
        1 => out.iter_mut().for_each(|b| *b = 0),
        2 => {
            let mut x = Xs::new(seed);
            out.iter_mut().for_each(|b| *b = (x.next() >> 24) as u8);
        }
        3 => out.iter_mut().enumerate().for_each(|(i, b)| *b = (i as u8).wrapping_mul(3).wrapping_add(seed as u8)),
        _ => out.iter_mut().enumerate().for_each(|(i, b)| *b = if tape_bytes.is_empty() { 0 } else { tape_bytes[i % tape_bytes.len()] }),
    }
}

const LENS: [usize; 44] = [
    0, 1, 2, 3, 7, 8, 15, 16, 17, 31, 32, 33, 47, 48, 63, 64, 65, 79, 80, 95, 96, 127, 128, 129, 255, 256, 257, 511, 1024, 4095, 5551, 5552, 5553,
    5552 + 64, 11103, 11104, 11105, 16656, 16657, 32768, 65535, 65536, 65537, 70000,
];

fn valid_adler(t: &mut Tape) -> u32 {
    let half = |t: &mut Tape| -> u32 {
        match t.below(6) {
            0 => 1,
            1 => 0,
            2 => 65520,
            3 => 65519,
            _ => (t.u16() as u32) % 65521,
        }
    };
    let a = half(t);
    let b = half(t);
    (b << 16) | a
}

fn any_crc(t: &mut Tape) -> u32 {
    match t.below(5) {
        0 => 0,
        1 => 0xffff_ffff,
        2 => 1,
        _ => t.u32(),
    }
}

fn len2_of(t: &mut Tape) -> u64 {
    match t.below(12) {
        0 => 0,
        1 => 1,
        2 => 5551,
        3 => 5552,
        4 => 5553,
        5 => (1u64 << 32) - 1,
        6 => 1u64 << 32,
        7 => (1u64 << 32) + 1,
        8 => 1u64 << 62,
        9 => (i64::MAX) as u64,
        10 => t.u32() as u64,
        _ => t.u64() >> 1,
    }
}

pub fn case(tape: &[u8], ctx: &Ctx) -> Outcome {
    let mut o = Outcome::new();
    let mut t = Tape::new(tape);
    let func = t.below(9);
    let mask = { let m = MASKS[t.below(4)]; if masks(ctx).contains(&m) { m } else { 0 } };
    let len = if t.chance(64) { t.below(70001) } else { t.pick(&LENS) };
    let al = t.below(64);
    let family = t.below(5);
    let seed = t.u16() as u64;
    let tb = t.bytes(16);
    let mut buf = Aligned::new(len);
    let data = buf.at(al, len);
    fill(family, seed, data, &tb);
    let data: &[u8] = data;
    set_mask(mask);
    let fname;
    let mut extra = J::Null;
    let mut big_len2 = false;
    match func {
        0 => {
            fname = "adler32";
            let s = valid_adler(&mut t);
            let got = zlib_rs::adler32::adler32(s, data);
            let want = rck::adler32(s, data);
            if got != want {
                o.fail("adler32/value", format!("adler32(start={:#x}, len={}, align={}, family={}, mask={}) = {:#x}, definition gives {:#x}", s, len, al, family, mask, got, want));
            }
            extra = J::U(s as u64);
        }
        1 => {
            fname = "crc32";
            let s = any_crc(&mut t);
            let got = zlib_rs::crc32::crc32(s, data);
            let want = rck::crc32(s, data);
            if got != want {
                o.fail("crc32/value", format!("crc32(start={:#x}, len={}, align={}, family={}, mask={}) = {:#x}, definition gives {:#x}", s, len, al, family, mask, got, want));
            }
            extra = J::U(s as u64);
        }
        2 => {
            fname = "adler32_z/adler32 (C API)";
            let s = valid_adler(&mut t);
            let got = unsafe { libz_rs_sys::adler32_z(s as _, data.as_ptr(), data.len()) } as u64;
            let got2 = unsafe { libz_rs_sys::adler32(s as _, data.as_ptr(), data.len() as u32) } as u64;
            let want = rck::adler32(s, data) as u64;
            if got != want || got2 != want {
                o.fail("adler32_z/value", format!("adler32_z/adler32(start={:#x}, len={}, align={}) = {:#x}/{:#x}, definition gives {:#x}", s, len, al, got, got2, want));
            }
            let n = unsafe { libz_rs_sys::adler32(s as _, core::ptr::null(), 0) } as u64;
            if n != 1 {
                o.fail("adler32/null", format!("adler32(_, NULL, 0) = {} (zlib manual: required initial value 1)", n));
            }
        }
        3 => {
            fname = "crc32_z/crc32 (C API)";
            let s = any_crc(&mut t);
            let got = unsafe { libz_rs_sys::crc32_z(s as _, data.as_ptr(), data.len()) } as u64;
            let got2 = unsafe { libz_rs_sys::crc32(s as _, data.as_ptr(), data.len() as u32) } as u64;
            let want = rck::crc32(s, data) as u64;
            if got != want || got2 != want {
                o.fail("crc32_z/value", format!("crc32_z/crc32(start={:#x}, len={}, align={}) = {:#x}/{:#x}, definition gives {:#x}", s, len, al, got, got2, want));
            }
            let n = unsafe { libz_rs_sys::crc32(s as _, core::ptr::null(), 0) } as u64;
            if n != 0 {
                o.fail("crc32/null", format!("crc32(_, NULL, 0) = {} (zlib manual: required initial value 0)", n));
            }
        }
        4 | 5 => {
            // piecewise: checksum of a concatenation computed in pieces equals the definition on the whole
            let is_crc = func == 5;
            fname = if is_crc { "crc32 piecewise" } else { "adler32 piecewise" };
            let s = if is_crc { any_crc(&mut t) } else { valid_adler(&mut t) };
            let mut cur = s;
            let mut pos = 0usize;
            let mut cuts = Vec::new();
            while pos < len {
                let step = match t.below(6) {
                    0 => 1,
                    1 => t.range(1, 64),
                    2 => 5552,
                    3 => t.range(1, 6000),
                    4 => 64,
                    _ => len - pos,
                };
                let e = (pos + step.max(1)).min(len);
                cur = if is_crc { zlib_rs::crc32::crc32(cur, &data[pos..e]) } else { zlib_rs::adler32::adler32(cur, &data[pos..e]) };
                pos = e;
                if cuts.len() < 8 {
                    cuts.push(J::U(e as u64));
                }
            }
            let want = if is_crc { rck::crc32(s, data) } else { rck::adler32(s, data) };
            if cur != want {
                o.fail(if is_crc { "crc32/piecewise" } else { "adler32/piecewise" }, format!("{} over pieces (start={:#x}, len={}, align={}, mask={}) = {:#x}, definition on the whole gives {:#x}", fname, s, len, al, mask, cur, want));
            }
            extra = J::A(cuts);
        }
        6 => {
            // combine(ck(A), ck(B), |B|) == ck(A||B)
            fname = "combine on real data";
            let cut = t.below(len + 1);
            let (a, b) = data.split_at(cut);
            let c1 = zlib_rs::crc32::crc32(0, a);
            let c2 = zlib_rs::crc32::crc32(0, b);
            let want = rck::crc32(0, data);
            let got = zlib_rs::crc32::crc32_combine(c1, c2, b.len() as u64);
            let op = zlib_rs::crc32::crc32_combine_gen(b.len() as u64);
            let got_op = zlib_rs::crc32::crc32_combine_op(c1, c2, op);
            let got_c = libz_rs_sys::crc32_combine64(c1 as _, c2 as _, b.len() as _) as u32;
            let got_c2 = libz_rs_sys::crc32_combine(c1 as _, c2 as _, b.len() as _) as u32;
            if got != want || got_op != want || got_c != want || got_c2 != want {
                o.fail("crc32_combine/data", format!("crc32_combine(|A|={},|B|={}) = {:#x} (op form {:#x}, C {:#x}/{:#x}); crc32(A||B) by definition = {:#x}", a.len(), b.len(), got, got_op, got_c, got_c2, want));
            }
            let a1 = zlib_rs::adler32::adler32(1, a);
            let a2 = zlib_rs::adler32::adler32(1, b);
            let wanta = rck::adler32(1, data);
            let gota = zlib_rs::adler32::adler32_combine(a1, a2, b.len() as u64);
            let gotc = libz_rs_sys::adler32_combine64(a1 as _, a2 as _, b.len() as _) as u32;
            let gotc2 = libz_rs_sys::adler32_combine(a1 as _, a2 as _, b.len() as _) as u32;
            if gota != wanta || gotc != wanta || gotc2 != wanta {
                o.fail("adler32_combine/data", format!("adler32_combine(|A|={},|B|={}) = {:#x} (C {:#x}/{:#x}); adler32(A||B) by definition = {:#x}", a.len(), b.len(), gota, gotc, gotc2, wanta));
            }
            extra = J::U(cut as u64);
        }
        7 => {
            // crc combine with arbitrary values and huge len2 against x^(8 len2) mod p
            fname = "crc32_combine (any len2)";
            let c1 = any_crc(&mut t);
            let c2 = any_crc(&mut t);
            let l2 = len2_of(&mut t);
            big_len2 = l2 >= (1u64 << 32);
            let want = rck::crc32_combine(c1, c2, l2);
            let got = zlib_rs::crc32::crc32_combine(c1, c2, l2);
            let op = zlib_rs::crc32::crc32_combine_gen(l2);
            let got_op = zlib_rs::crc32::crc32_combine_op(c1, c2, op);
            let got_c = libz_rs_sys::crc32_combine64(c1 as _, c2 as _, l2 as i64) as u32;
            let op_c = libz_rs_sys::crc32_combine_gen64(l2 as i64);
            let got_opc = libz_rs_sys::crc32_combine_op(c1 as _, c2 as _, op_c) as u32;
            if got != want || got_op != want || got_c != want || got_opc != want {
                o.fail("crc32_combine/len2", format!("crc32_combine({:#x},{:#x},{}) = {:#x} (gen+op {:#x}, C {:#x}, C gen+op {:#x}); definition gives {:#x}", c1, c2, l2, got, got_op, got_c, got_opc, want));
            }
            extra = J::s(format!("c1={:#x} c2={:#x} len2={}", c1, c2, l2));
        }
        _ => {
            fname = "adler32_combine (any len2)";
            let a1 = valid_adler(&mut t);
            let a2 = valid_adler(&mut t);
            let l2 = len2_of(&mut t);
            big_len2 = l2 >= (1u64 << 32);
            let want = rck::adler32_combine(a1, a2, l2);
            let got = zlib_rs::adler32::adler32_combine(a1, a2, l2);
            let got_c = libz_rs_sys::adler32_combine64(a1 as _, a2 as _, l2 as i64) as u32;
            if got != want || got_c != want {
                o.fail("adler32_combine/len2", format!("adler32_combine({:#x},{:#x},{}) = {:#x} (C {:#x}); definition gives {:#x}", a1, a2, l2, got, got_c, want));
            }
            extra = J::s(format!("a1={:#x} a2={:#x} len2={}", a1, a2, l2));
        }
    }
    set_mask(0);
    let uses_data = func <= 6;
    let nontrivial = (uses_data && (len >= 64)) || big_len2;
    if uses_data && len >= 64 {
        o.class("len>=64 (SIMD fold)");
    }
    if uses_data && len > 5552 {
        o.class("crosses NMAX");
    }
    if big_len2 {
        o.class("combine len2>=2^32");
    }
    o.class(match mask {
        0 => "mask:none",
        4 => "mask:no-avx2",
        16 => "mask:no-pclmul",
        _ => "mask:all-off",
    });
    if nontrivial {
        let mut fp = Fp::new();
        fp.add(func as u64).add(mask as u64).add(len as u64).add(al as u64).add(family as u64).bytes(&tape[..tape.len().min(40)]);
        o.nontrivial = Some(fp.0);
        if ctx.want_sample {
            o.sample = Some(
                J::obj()
                    .set("function", J::s(fname))
                    .set("cpu_mask", J::U(mask as u64))
                    .set("len", J::U(len as u64))
                    .set("align", J::U(al as u64))
                    .set("family", J::s(["0xFF", "0x00", "random", "ramp", "tape"][family]))
                    .set("extra", extra),
            );
        }
    }
    o
}

// ---------------------------------------------------------------------------------
// enumeration: length x alignment grid, per implementation mask

fn enum_bytes(grid: u8, mask: u32, fam: u8, st: u8, al: u8, len: u32) -> Vec<u8> {
    let mut v = vec![grid, mask as u8, fam, st, al];
    v.extend_from_slice(&len.to_le_bytes());
    v
}

const ADLER_STARTS: [u32; 3] = [1, (65520 << 16) | 65520, 0x1234_0abc];
const CRC_STARTS: [u32; 3] = [0, 0xffff_ffff, 0x89ab_cdef];
const FAMS: [usize; 3] = [0, 2, 3];

fn grid_eval(mask: u32, fam: usize, st: usize, al: usize, len: usize, buf: &mut Aligned, ref_a: u32, ref_c: u32) -> Option<Fail> {
    let d = buf.at(al, len);
    let ga = zlib_rs::adler32::adler32(ADLER_STARTS[st], d);
    let gc = zlib_rs::crc32::crc32(CRC_STARTS[st], d);
    if ga != ref_a {
        return Some(Fail { sig: "adler32/value".into(), msg: format!("grid: adler32(start={:#x}, len={}, align={}, family={}, mask={}) = {:#x}, definition gives {:#x}", ADLER_STARTS[st], len, al, fam, mask, ga, ref_a) });
    }
    if gc != ref_c {
        return Some(Fail { sig: "crc32/value".into(), msg: format!("grid: crc32(start={:#x}, len={}, align={}, family={}, mask={}) = {:#x}, definition gives {:#x}", CRC_STARTS[st], len, al, fam, mask, gc, ref_c) });
    }
    None
}

pub fn enumerate(ctx: &Ctx, sink: &mut dyn FnMut(&[u8], Option<Outcome>) -> bool) {
    // grid 0: lengths 0..=1100, all 64 alignments; grid 1: lengths 0..=16784, alignments {0,1,31,63}
    let grids: [(u8, usize, &[usize]); 2] = [(0, 1100, &ALL64), (1, 3 * 5552 + 128, &[0, 1, 31, 63])];
    let mut work = 0usize;
    for (gid, maxlen, aligns) in grids.iter() {
        for (fi, &fam) in FAMS.iter().enumerate() {
            // master data for this family
            let mut master = vec![0u8; *maxlen];
            fill(fam, 0xC09 + fam as u64, &mut master, &[]);
            let mut buf = Aligned::new(*maxlen);
            for st in 0..3 {
                // reference prefix checksums, incrementally, from the definitions
                let mut ra = Vec::with_capacity(maxlen + 1);
                let mut rc = Vec::with_capacity(maxlen + 1);
                let mut a = ADLER_STARTS[st];
                let mut c = CRC_STARTS[st];
                ra.push(a);
                rc.push(c);
                for i in 0..*maxlen {
                    a = rck::adler32(a, &master[i..i + 1]);
                    c = rck::crc32(c, &master[i..i + 1]);
                    ra.push(a);
                    rc.push(c);
                }
                for &al in aligns.iter() {
                    work += 1;
                    if work % ctx.nworkers != ctx.worker {
                        continue;
                    }
                    buf.at(al, *maxlen).copy_from_slice(&master);
                    for &mask in masks(ctx).iter() {
                        sink(&enum_bytes(*gid, mask, fi as u8, st as u8, al as u8, u32::MAX), None);
                        set_mask(mask);
                        let mut o = Outcome::new();
                        o.evals = 0;
                        let mut bad: Option<(usize, Fail)> = None;
                        for len in 0..=*maxlen {
                            o.evals += 2;
                            if let Some(f) = grid_eval(mask, fam, st, al, len, &mut buf, ra[len], rc[len]) {
                                bad = Some((len, f));
                                break;
                            }
                        }
                        set_mask(0);
                        let mut fp = Fp::new();
                        fp.add(*gid as u64).add(mask as u64).add(fi as u64).add(st as u64).add(al as u64);
                        o.nontrivial = Some(fp.0);
                        o.class("grid row (all lengths)");
                        if ctx.want_sample {
                            o.sample = Some(J::obj().set("grid", J::U(*gid as u64)).set("lengths", J::s(format!("0..={}", maxlen))).set("align", J::U(al as u64)).set("family", J::U(fam as u64)).set("start_index", J::U(st as u64)).set("cpu_mask", J::U(mask as u64)));
                        }
                        let bytes;
                        if let Some((len, f)) = bad {
                            o.fail = Some(f);
                            bytes = enum_bytes(*gid, mask, fi as u8, st as u8, al as u8, len as u32);
                        } else {
                            bytes = enum_bytes(*gid, mask, fi as u8, st as u8, al as u8, u32::MAX);
                        }
                        if !sink(&bytes, Some(o)) {
                            return;
                        }
                    }
                }
            }
        }
    }
}

const ALL64: [usize; 64] = {
    let mut a = [0usize; 64];
    let mut i = 0;
    while i < 64 {
        a[i] = i;
        i += 1;
    }
    a
};

pub fn enum_replay(b: &[u8], _ctx: &Ctx) -> Outcome {
    let mut o = Outcome::new();
    if b.len() < 9 {
        return o;
    }
    let (gid, mask, fi, st, al) = (b[0], b[1] as u32, b[2] as usize % 3, b[3] as usize % 3, b[4] as usize % 64);
    let len = u32::from_le_bytes(b[5..9].try_into().unwrap());
    let maxlen = if gid == 0 { 1100 } else { 3 * 5552 + 128 };
    let fam = FAMS[fi];
    let mut master = vec![0u8; maxlen];
    fill(fam, 0xC09 + fam as u64, &mut master, &[]);
    let mut buf = Aligned::new(maxlen);
    buf.at(al, maxlen).copy_from_slice(&master);
    let lens: Vec<usize> = if len == u32::MAX { (0..=maxlen).collect() } else { vec![(len as usize).min(maxlen)] };
    set_mask(mask);
    for l in lens {
        let ra = rck::adler32(ADLER_STARTS[st], &master[..l]);
        let rc = rck::crc32(CRC_STARTS[st], &master[..l]);
        if let Some(f) = grid_eval(mask, fam, st, al, l, &mut buf, ra, rc) {
            o.fail = Some(f);
            break;
        }
    }
    set_mask(0);
    o
}

pub fn property() -> Property {
    Property {
        id: "C09",
        rule: RULE,
        phases: vec![
            Phase::Enum { name: "length x alignment grid per implementation mask", f: enumerate, replay: enum_replay },
            Phase::Prop { name: "random checksum/combine calls", f: case, quick: 60_000, thorough: 3_000_000, max_tape: 96 },
        ],
    }
}
