//! C11 — flush points make all prior input decodable; full flush is a restart point.
use crate::api::*;
use crate::edef::*;
use crate::einf::*;
use crate::props::c01::sample;
use crate::props::c05::{check_header, verify_flush_points};
use crate::runner::*;
use crate::tape::{Fp, Tape};

pub const RULE: &str = "C01's generator with flush-heavy schedules: PARTIAL/SYNC/FULL (and BLOCK) flushes at arbitrary positions, consecutive flushes, flushes with no new input, flushes starved of output and completed by later calls (repeat-until-avail_out>0 rule), every level/strategy/window/memLevel, optional dictionary. Oracle (R-DEC strict, independent of zlib-rs inflate) at EVERY call with flush in {PARTIAL,SYNC,FULL} that returns with avail_out > 0: the bytes emitted so far decode exactly to the input supplied so far; SYNC/FULL output is byte aligned and ends with 00 00 FF FF; after FULL the rest of the stream decodes with an empty history. Non-trivial = >= 1 completed flush with >= 1 byte consumed before it and >= 1 byte after it; distinct by (config, data, schedule).";

pub fn case(tape: &[u8], ctx: &Ctx) -> Outcome {
    let mut o = Outcome::new();
    let (tape, copy) = split_copy_suffix(tape);
    let mut t = Tape::new(tape);
    let mut po = PlanOpts::standard();
    po.flush_heavy = true;
    po.allow_dict = true;
    po.allow_gz_header = true;
    let mut plan = gen_plan(&mut t, &po);
    if let Some(b) = copy {
        apply_copy(&mut plan, b);
        o.class("session with deflateCopy-and-continue");
    }
    let plan = plan;
    let api = t.below(8);
    ARENAS.with(|ar| {
        let (run, api_name) = if api == 0 {
            let mut p2 = plan.clone();
            p2.gz = None;
            (run_deflate_with::<RustDef>(&p2, ar), "zlib_rs::Deflate")
        } else {
            (run_deflate::<Rs>(&plan, ar), "libz_rs_sys")
        };
        if run.init_rc != Z_OK || run.dict_rc.map_or(false, |r| r != Z_OK) {
            return;
        }
        if run.flush_points.is_empty() {
            o.class("no completed flush");
            return;
        }
        // header length from the emitted bytes (content is C05's business)
        let gz_applied = api != 0 && run.header_rc == Some(Z_OK);
        let body_off = match check_header(&run.out, &plan.cfg, plan.dict.as_deref(), if gz_applied { plan.gz.as_ref() } else { None }, run.header_level, run.header_strategy) {
            Ok(p) => p.body_off,
            Err(e) => {
                if std::env::var("VERIF_DEBUG").is_ok() {
                    std::fs::write("/tmp/vt/c11_hdr.tape", tape).ok();
                    eprintln!("C11 header problem: {:?}; {} [{}] out={} finished={}", e, plan.cfg.describe(), plan.describe_ops(), run.out.len(), run.finished);
                }
                o.class("header not parseable (see C05)");
                return;
            }
        };
        if let Some((sig, msg)) = verify_flush_points(&plan, &run, body_off) {
            o.fail(sig, format!("{}: {}; {} [{}]", api_name, msg, plan.cfg.describe(), plan.describe_ops()));
            return;
        }
        o.evals = 1;
        let mut nontrivial = false;
        for fp in &run.flush_points {
            if fp.in_len > 0 && fp.in_len < plan.data.len() {
                nontrivial = true;
            }
            o.class(match fp.flush {
                Z_PARTIAL_FLUSH => "partial flush",
                Z_SYNC_FLUSH => "sync flush",
                _ => "full flush",
            });
            if fp.delayed {
                o.class("flush completed by a later call");
            }
            if fp.rc == Z_BUF_ERROR {
                o.class("flush call returned BUF_ERROR (nothing to do)");
            }
        }
        o.class(match plan.cfg.level {
            0 => "level 0 (stored)",
            1 => "level 1 (quick)",
            2 => "level 2 (fast)",
            3..=6 | -1 => "level 3-6 (medium)",
            _ => "level 7-9 (slow)",
        });
        if nontrivial {
            let mut fp = Fp::new();
            fp.bytes(plan.cfg.describe().as_bytes()).bytes(&plan.data).bytes(plan.describe_ops().as_bytes()).add(api as u64);
            o.nontrivial = Some(fp.0);
            if ctx.want_sample {
                o.sample = Some(sample(&plan, &run, api_name).set("flush_points_detail", crate::json::J::A(run.flush_points.iter().take(6).map(|f| crate::json::J::s(format!("flush {} at call {}: in {} out {} delayed {}", f.flush, f.call_index, f.in_len, f.out_len, f.delayed))).collect())));
            }
        }
    });
    o
}

pub fn property() -> Property {
    Property { id: "C11", rule: RULE, phases: vec![Phase::Prop { name: "flush-heavy deflate sessions -> strict reference decoder at every flush point", f: case, quick: 300_000, thorough: 4_000_000, max_tape: 320 }] }
}
