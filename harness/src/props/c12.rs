//! C12 — compressed bytes are identical to the reference implementation zlib-ng.
use crate::api::*;
use crate::edef::*;
use crate::einf::*;
use crate::props::c01::{classify, sample};
use crate::props::c05::verify_output;
use crate::runner::*;
use crate::tape::{Fp, Tape};

pub const RULE: &str = "C01's generator (long structured inputs that fill hash chains and slide the window; all levels/strategies/windowBits/memLevels/wrappers; gzip headers, dictionaries, chunk schedules, flush modes, deflateParams/deflateTune). The schedule is executed as the canonical application loop (each step supplies a chunk of new input and calls deflate with the step's output size until the chunk is consumed and a requested flush completed; deflateParams retried on BUF_ERROR), on zlib-ng 2.3.3 (libz-sys) and on libz_rs_sys. Oracle: identical total output bytes and both reach stream end (per-call movement is C16's business). A case is dropped (counted) when zlib-ng's own output fails the strict reference decoder (reference validity rule). Non-trivial = input >= 2 windows or >= 3 blocks, level >= 1, output not all stored; distinct by (config, data, schedule).";

pub fn compare_runs(rs: &DefRun, ng: &DefRun) -> Option<(String, String)> {
    if std::env::var("VERIF_TRACE").is_ok() {
        eprintln!("TRACE outputs: zlib-rs {} bytes (fnv {:#x}), zlib-ng {} bytes (fnv {:#x})", rs.out.len(), crate::tape::fnv64(&rs.out), ng.out.len(), crate::tape::fnv64(&ng.out));
    }
    if rs.finished != ng.finished {
        return Some(("finish/status".into(), format!("zlib-rs finished: {} (last rc {}), zlib-ng finished: {}", rs.finished, rc_name(rs.last_rc), ng.finished)));
    }
    if rs.out != ng.out {
        let at = rs.out.iter().zip(ng.out.iter()).position(|(a, b)| a != b).unwrap_or(rs.out.len().min(ng.out.len()));
        return Some(("output/bytes-differ".into(), format!("compressed output differs from zlib-ng: {} vs {} bytes, first difference at byte {}", rs.out.len(), ng.out.len(), at)));
    }
    None
}

pub fn case(tape: &[u8], ctx: &Ctx) -> Outcome {
    let mut o = Outcome::new();
    let (tape, copy) = split_copy_suffix(tape);
    let mut t = Tape::new(tape);
    let mut po = PlanOpts::standard();
    po.allow_dict = true;
    let mut plan = gen_plan(&mut t, &po);
    if let Some(b) = copy {
        // both libraries copy at the same points of the lock-step session
        apply_copy(&mut plan, b);
        o.class("session with deflateCopy-and-continue");
    }
    plan.canonical = true;
    plan.cycles = plan.cycles.min(40);
    if std::env::var("VERIF_TRACE").is_ok() {
        eprintln!("CASE {} data {} dict {:?} gz {} [{}]", plan.cfg.describe(), plan.data.len(), plan.dict.as_ref().map(|d| d.len()), plan.gz.is_some(), plan.describe_ops());
    }
    let t0 = std::time::Instant::now();
    let ng = ARENAS2.with(|ar| run_deflate::<Ng>(&plan, ar));
    let t_ng = t0.elapsed();
    if std::env::var("VERIF_TIMING").is_ok() && t_ng.as_millis() > 20 {
        eprintln!("TIMING-NG {:?} calls {} finished {} viol {:?} {} data {} dict {:?} [{}]", t_ng, ng.ncalls, ng.finished, ng.violations.first(), plan.cfg.describe(), plan.data.len(), plan.dict.as_ref().map(|d| d.len()), plan.describe_ops());
    }
    if ng.init_rc != Z_OK || !ng.finished || ng.dict_rc.map_or(false, |r| r != Z_OK) {
        o.class("dropped: zlib-ng did not complete the session");
        return o;
    }
    if let Err((sig, _)) = verify_output(&ng.out, &plan, ng.header_level, ng.header_strategy, ng.header_rc == Some(Z_OK)) {
        // zlib-ng is the specification only where it is itself correct
        if !sig.starts_with("header/") {
            o.class("dropped: zlib-ng output fails the strict reference decoder");
            return o;
        }
    }
    let t1 = std::time::Instant::now();
    let rs = ARENAS.with(|ar| run_deflate::<Rs>(&plan, ar));
    if std::env::var("VERIF_TIMING").is_ok() && (t_ng.as_millis() > 20 || t1.elapsed().as_millis() > 20) {
        eprintln!("TIMING ng {:?} (calls {}) rs {:?} (calls {}) {} data {} [{}]", t_ng, ng.ncalls, t1.elapsed(), rs.ncalls, plan.cfg.describe(), plan.data.len(), plan.describe_ops());
    }
    if rs.init_rc != Z_OK {
        o.fail("init/status", format!("zlib-rs deflateInit2 returned {} where zlib-ng returned Z_OK ({})", rs.init_rc, plan.cfg.describe()));
        return o;
    }
    if std::env::var("VERIF_DEBUG").is_ok() {
        let n = rs.calls.len().min(ng.calls.len());
        for i in 0..n {
            let (a, b) = (&rs.calls[i], &ng.calls[i]);
            if a.rc != b.rc || a.din != b.din || a.dout != b.dout {
                eprintln!("first per-call difference at call {}: kind {} flush {} in {} out {}: rs rc {} din {} dout {} | ng rc {} din {} dout {}", i + 1, a.kind, a.flush, a.avail_in, a.avail_out, a.rc, a.din, a.dout, b.rc, b.din, b.dout);
                break;
            }
        }
        for i in 0..n.min(16) {
            let (a, b) = (&rs.calls[i], &ng.calls[i]);
            eprintln!("  call {}: kind {} flush {} in {} out {}: rs rc {} din {} dout {} | ng rc {} din {} dout {}", i + 1, a.kind, a.flush, a.avail_in, a.avail_out, a.rc, a.din, a.dout, b.rc, b.din, b.dout);
        }
        eprintln!("calls rs {} ng {}; out rs {} ng {}", rs.calls.len(), ng.calls.len(), rs.out.len(), ng.out.len());
        eprintln!("rs out head {}", crate::json::hex_cut(&rs.out, 40));
        eprintln!("ng out head {}", crate::json::hex_cut(&ng.out, 40));
        eprintln!("data head {} dict {:?} gz {:?}", crate::json::hex_cut(&plan.data, 40), plan.dict.as_ref().map(|d| crate::json::hex_cut(d, 16)), plan.gz.is_some());
    }
    if let Some((sig, msg)) = compare_runs(&rs, &ng) {
        o.fail(sig, format!("{}; {} [{}] input {} bytes", msg, plan.cfg.describe(), plan.describe_ops(), plan.data.len()));
        return o;
    }
    let _ = classify(&mut o, &plan, &rs);
    let w = 1usize << plan.cfg.eff_wbits();
    let eff_level = if plan.cfg.level == -1 { 6 } else { plan.cfg.level };
    let big = plan.data.len() >= 2 * w || plan.data.len() >= 3 * (1usize << (plan.cfg.mem_level + 6));
    let compressed = (rs.out.len() as f64) < plan.data.len() as f64 * 0.98;
    if big && eff_level >= 1 && compressed {
        let mut fp = Fp::new();
        fp.bytes(plan.cfg.describe().as_bytes()).bytes(&plan.data).bytes(plan.describe_ops().as_bytes());
        o.nontrivial = Some(fp.0);
        if ctx.want_sample {
            o.sample = Some(sample(&plan, &rs, "libz_rs_sys vs zlib-ng"));
        }
    }
    o
}

pub fn property() -> Property {
    Property { id: "C12", rule: RULE, phases: vec![Phase::Prop { name: "deflate sessions in lock-step with zlib-ng", f: case, quick: 400_000, thorough: 4_000_000, max_tape: 320 }] }
}
