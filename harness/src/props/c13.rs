//! C13 — preset dictionaries: announced, demanded, verified, and round-trip; get-dictionary calls.
use crate::api::*;
use crate::edef::gen_dict;
use crate::einf::*;
use crate::gen::*;
use crate::json::J;
use crate::refimpl::rck;
use crate::refimpl::rgzh::{parse_zlib_header, Wrap};
use crate::runner::*;
use crate::tape::{Fp, Tape};
use core::ffi::c_uint;

pub const RULE: &str = "tape -> dictionary (len 0, 1.., w-263..w+1, 2w, 40000, 100000; made of pieces of the data, random or small alphabet) x input x DeflateConfig x flow {zlib: set before first call; raw: set before first call; raw: set mid-stream at a completed SYNC/FULL flush on both sides; gzip: must be refused} x chunkings x points at which deflateGetDictionary / inflateGetDictionary are called; also Deflate::set_dictionary / Inflate::set_dictionary / NeedDict{dict_id}. Oracle (model strings + bitwise Adler-32): zlib header has FDICT and DICTID = Adler-32(dict); inflate returns NEED_DICT reporting that value before any output; inflateSetDictionary with a dictionary of different Adler-32 -> DATA_ERROR, with a DIFFERENT dictionary of the SAME Adler-32 (+1,-2,+1 tweak) -> OK, with the right one -> OK and the output equals the input; the same stream fed again after inflateReset demands, verifies and uses the dictionary again; raw round trip with the dictionary on both sides; inflateGetDictionary = last min(|dict||output|, 32768) bytes exactly; deflateGetDictionary = a suffix of dict||consumed input, of full length if that is <= w else between w-262 and w. Non-trivial = dictionary >= 1 byte and (a match reaches into the dictionary, or dict > window, or get-dictionary after the window slid); distinct by case fingerprint.";

fn same_adler_variant(d: &[u8]) -> Option<Vec<u8>> {
    for i in 0..d.len().saturating_sub(2) {
        if d[i] <= 254 && d[i + 1] >= 2 && d[i + 2] <= 254 {
            let mut v = d.to_vec();
            v[i] += 1;
            v[i + 1] -= 2;
            v[i + 2] += 1;
            return Some(v);
        }
    }
    None
}

struct DefOut {
    comp: Vec<u8>,
    cut: Option<usize>,
    ok: bool,
}

/// `since`: bytes of history since the last completed FULL flush (zlib forgets the history there)
fn check_def_dict(strm: &mut z_stream, hist: &[u8], since: usize, w: usize, ar: &Arenas, o: &mut Outcome, at: &str) -> bool {
    let cap = 70_000usize;
    let p = ar.aux[0].right(cap);
    let mut n: c_uint = 0xdead;
    let rc = unsafe { Rs::deflateGetDictionary(strm, p, &mut n) };
    if rc != Z_OK {
        o.fail("deflateGetDictionary/status", format!("{}: deflateGetDictionary returned {}", at, rc_name(rc)));
        return false;
    }
    let n = n as usize;
    let got = unsafe { core::slice::from_raw_parts(p, n.min(cap)) };
    let since = since.min(hist.len());
    let lo = if since <= w { since } else { w - 262 };
    let hi = hist.len().min(w);
    if n < lo || n > hi {
        o.fail("deflateGetDictionary/length", format!("{}: deflateGetDictionary returned {} bytes; history is {} bytes ({} since the last full flush), window {} (allowed {}..={})", at, n, hist.len(), since, w, lo, hi));
        return false;
    }
    if got != &hist[hist.len() - n..] {
        let at_i = got.iter().zip(hist[hist.len() - n..].iter()).position(|(a, b)| a != b).unwrap_or(0);
        o.fail("deflateGetDictionary/content", format!("{}: the {} bytes returned are not the last {} bytes of dictionary + consumed input (first difference at {})", at, n, n, at_i));
        return false;
    }
    // length-only query with NULL buffer
    let mut n2: c_uint = 0;
    let rc2 = unsafe { Rs::deflateGetDictionary(strm, core::ptr::null_mut(), &mut n2) };
    if rc2 != Z_OK || n2 as usize != n {
        o.fail("deflateGetDictionary/null-buffer", format!("{}: length query with NULL buffer returned rc {} len {} (data call gave {})", at, rc_name(rc2), n2, n));
        return false;
    }
    true
}

pub fn case(tape: &[u8], ctx: &Ctx) -> Outcome {
    let mut o = Outcome::new();
    let mut t = Tape::new(tape);
    let mut cfg = gen_cfg(&mut t);
    let flow = t.below(8);
    cfg.wrap = match flow {
        0 | 1 | 2 => Wrap::Zlib,
        3 | 4 => Wrap::Raw,
        5 | 6 => Wrap::Raw, // mid-stream
        _ => Wrap::Gzip,
    };
    let mid = flow == 5 || flow == 6;
    if cfg.wrap != Wrap::Zlib && cfg.wbits == 8 {
        cfg.wbits = 9;
    }
    let w = 1usize << cfg.eff_wbits();
    let maxd = t.pick(&[300usize, 5000, 70_000]);
    let data = gen_data(&mut t, cfg.eff_wbits(), maxd);
    let dict = gen_dict(&mut t, w, &data);
    let chunk = t.pick(&[1usize, 7, 100, 1000, 5000, 70_000]);
    let get_at = t.below(6);
    let cut_in = if data.is_empty() { 0 } else { t.below(data.len() + 1) };
    let mid_flush = if t.bool() { Z_SYNC_FLUSH } else { Z_FULL_FLUSH };
    let wrapper = t.below(6) == 0 && !mid;
    let dtail: Vec<u8> = dict[dict.len().saturating_sub(w)..].to_vec();
    if std::env::var("VERIF_DEBUG").is_ok() {
        eprintln!("C13 case: {} flow {} data {} dict {} chunk {} get_at {} cut_in {} mid_flush {} wrapper {}", cfg.describe(), flow, data.len(), dict.len(), chunk, get_at, cut_in, mid_flush, wrapper);
    }
    ARENAS.with(|ar| {
        // ------------------------------------------------------------------ compress
        let mut def = DefOut { comp: Vec::new(), cut: None, ok: false };
        if wrapper && cfg.wrap != Wrap::Gzip {
            let mut d = match std::panic::catch_unwind(|| zlib_rs::Deflate::new_with_config(crate::edef::rust_config(&cfg))) {
                Ok(d) => d,
                Err(_) => return,
            };
            match d.set_dictionary(&dict) {
                Ok(a) => {
                    if cfg.wrap == Wrap::Zlib && a != rck::adler32(1, &dict) {
                        o.fail("Deflate::set_dictionary/adler", format!("Deflate::set_dictionary returned {:#010x}, Adler-32 of the dictionary is {:#010x}", a, rck::adler32(1, &dict)));
                        return;
                    }
                }
                Err(e) => {
                    o.fail("Deflate::set_dictionary/status", format!("Deflate::set_dictionary on a fresh {:?} stream failed: {:?}", cfg.wrap, e));
                    return;
                }
            }
            let mut out = vec![0u8; data.len() + data.len() / 8 + 1024];
            let mut ip = 0;
            let mut opos = 0;
            loop {
                let before_in = d.total_in();
                let before_out = d.total_out();
                let r = d.compress(&data[ip..], &mut out[opos..], zlib_rs::DeflateFlush::Finish);
                ip += (d.total_in() - before_in) as usize;
                opos += (d.total_out() - before_out) as usize;
                match r {
                    Ok(zlib_rs::Status::StreamEnd) => break,
                    Ok(_) if opos < out.len() => continue,
                    _ => return,
                }
            }
            out.truncate(opos);
            def.comp = out;
            def.ok = true;
        } else {
            let mut strm = zs();
            let rc = unsafe { Rs::deflateInit2(&mut strm, cfg.level, 8, cfg.window_bits_arg(), cfg.mem_level, cfg.strategy) };
            if rc != Z_OK {
                o.fail("init/status", format!("deflateInit2 rejected {}: {}", cfg.describe(), rc));
                return;
            }
            let dp = ar.dict.put_right(&dict[..dict.len().min(ar.dict.cap)]);
            if cfg.wrap == Wrap::Gzip {
                let rc = unsafe { Rs::deflateSetDictionary(&mut strm, dp, dict.len() as c_uint) };
                if rc != Z_STREAM_ERROR {
                    o.fail("deflateSetDictionary/gzip-not-refused", format!("deflateSetDictionary on a gzip stream returned {} (must be refused with Z_STREAM_ERROR)", rc_name(rc)));
                }
                unsafe { Rs::deflateEnd(&mut strm) };
                o.class("gzip: dictionary refused");
                return;
            }
            let mut hist: Vec<u8> = Vec::new();
            let mut full_at = 0usize; // hist index of the last completed full flush
            if !mid {
                let rc = unsafe { Rs::deflateSetDictionary(&mut strm, dp, dict.len() as c_uint) };
                if rc != Z_OK {
                    o.fail("deflateSetDictionary/status", format!("deflateSetDictionary({} bytes) before the first deflate call on a {:?} stream returned {}", dict.len(), cfg.wrap, rc_name(rc)));
                    unsafe { Rs::deflateEnd(&mut strm) };
                    return;
                }
                if cfg.wrap == Wrap::Zlib && strm.adler as u32 != rck::adler32(1, &dict) {
                    o.fail("deflateSetDictionary/adler", format!("strm.adler after deflateSetDictionary is {:#010x}, Adler-32 of the dictionary is {:#010x}", strm.adler, rck::adler32(1, &dict)));
                    unsafe { Rs::deflateEnd(&mut strm) };
                    return;
                }
                hist.extend_from_slice(&dtail);
                if get_at == 0 && !check_def_dict(&mut strm, &hist, hist.len(), w, ar, &mut o, "right after deflateSetDictionary") {
                    unsafe { Rs::deflateEnd(&mut strm) };
                    return;
                }
            }
            // feed the data in chunks, ample output
            let mut out = vec![0u8; data.len() + data.len() / 8 + 4096 + 16 * (data.len() / chunk.max(1) + 1).min(100_000)];
            let mut opos = 0usize;
            let mut ipos = 0usize;
            let mut did_mid = !mid;
            let mut nget = 0;
            loop {
                let at_cut = mid && !did_mid && ipos >= cut_in;
                let end = if mid && !did_mid { (ipos + chunk).min(cut_in.max(ipos)) } else { (ipos + chunk).min(data.len()) };
                let last = end == data.len() && (did_mid || !mid);
                let flush = if at_cut || (mid && !did_mid && end == cut_in) { mid_flush } else if last { Z_FINISH } else { Z_NO_FLUSH };
                let ip = ar.inp.put_right(&data[ipos..end]);
                strm.next_in = ip;
                strm.avail_in = (end - ipos) as u32;
                let mut rc;
                loop {
                    strm.next_out = unsafe { out.as_mut_ptr().add(opos) };
                    strm.avail_out = (out.len() - opos) as u32;
                    let before = strm.avail_out;
                    rc = unsafe { Rs::deflate(&mut strm, flush) };
                    opos += (before - strm.avail_out) as usize;
                    if rc == Z_STREAM_END || strm.avail_out != 0 || opos >= out.len() {
                        break;
                    }
                }
                if strm.avail_in != 0 || !(rc == Z_OK || rc == Z_STREAM_END || rc == Z_BUF_ERROR) {
                    // not C13's business
                    unsafe { Rs::deflateEnd(&mut strm) };
                    return;
                }
                hist.extend_from_slice(&data[ipos..end]);
                ipos = end;
                if mid && !did_mid && ipos >= cut_in && flush == mid_flush {
                    did_mid = true;
                    def.cut = Some(opos);
                    if mid_flush == Z_FULL_FLUSH {
                        full_at = hist.len();
                    }
                    let rc = unsafe { Rs::deflateSetDictionary(&mut strm, dp, dict.len() as c_uint) };
                    if rc != Z_OK {
                        o.fail("deflateSetDictionary/mid-stream-status", format!("raw stream: deflateSetDictionary({} bytes) at a completed flush point after {} input bytes returned {}", dict.len(), ipos, rc_name(rc)));
                        unsafe { Rs::deflateEnd(&mut strm) };
                        return;
                    }
                    if dict.len() >= w {
                        hist.clear();
                        full_at = 0;
                    }
                    hist.extend_from_slice(&dtail);
                    if get_at <= 2 && !check_def_dict(&mut strm, &hist, hist.len() - full_at, w, ar, &mut o, "after mid-stream deflateSetDictionary") {
                        unsafe { Rs::deflateEnd(&mut strm) };
                        return;
                    }
                }
                if rc == Z_STREAM_END {
                    break;
                }
                if get_at >= 1 && nget < 3 && (ipos % 3 == 0 || ipos > w) && !(mid && !did_mid) {
                    nget += 1;
                    if !check_def_dict(&mut strm, &hist, hist.len() - full_at, w, ar, &mut o, "between deflate calls") {
                        unsafe { Rs::deflateEnd(&mut strm) };
                        return;
                    }
                    if hist.len() > 2 * w {
                        o.class("deflateGetDictionary after window slide");
                    }
                }
                if ipos >= data.len() && did_mid && flush == Z_FINISH {
                    break;
                }
            }
            unsafe { Rs::deflateEnd(&mut strm) };
            out.truncate(opos);
            def.comp = out;
            def.ok = true;
        }
        if !def.ok {
            return;
        }
        let comp = &def.comp;
        let dict_id = rck::adler32(1, &dict);
        // ------------------------------------------------------------------ header
        if cfg.wrap == Wrap::Zlib {
            match parse_zlib_header(comp, 0) {
                Ok(h) => {
                    let want = !dict.is_empty();
                    if h.fdict != want {
                        o.fail("header/fdict", format!("FDICT is {} after setting a {}-byte dictionary", h.fdict, dict.len()));
                        return;
                    }
                    if want && h.dictid != dict_id {
                        o.fail("header/dictid", format!("DICTID {:#010x}, Adler-32 of the dictionary {:#010x}", h.dictid, dict_id));
                        return;
                    }
                }
                Err(e) => {
                    o.fail("header/invalid", format!("zlib header not parseable: {:?}", e));
                    return;
                }
            }
        }
        // ------------------------------------------------------------------ decompress
        let wb = cfg.inflate_bits();
        let mut io = InfOpts::new(wb);
        let sched = gen_inf_schedule(&mut t);
        let mut reach = false;
        if cfg.wrap == Wrap::Zlib && !dict.is_empty() {
            // (1) without a dictionary: NEED_DICT reporting the id, no output before it
            let r0 = run_inflate::<Rs>(comp, &sched, &io, ar);
            if r0.status != Status::NeedDict {
                o.fail("inflate/need-dict-not-requested", format!("stream with FDICT: inflate ended with {} instead of asking for the dictionary", status_name(r0.status)));
                return;
            }
            if r0.need_dict_adler != Some(dict_id as u64) || !r0.out.is_empty() {
                o.fail("inflate/need-dict-id", format!("NEED_DICT reported adler {:?} (dictionary id {:#010x}) after {} output bytes", r0.need_dict_adler, dict_id, r0.out.len()));
                return;
            }
            // (2) a dictionary with a different Adler-32 is rejected
            let mut wrong = dict.clone();
            wrong[0] = wrong[0].wrapping_add(1);
            io.dict = Some(&wrong);
            let r1 = run_inflate::<Rs>(comp, &sched, &io, ar);
            if r1.dict_rc != Some(Z_DATA_ERROR) {
                o.fail("inflateSetDictionary/wrong-dict-accepted", format!("inflateSetDictionary with a dictionary of Adler-32 {:#010x} (stream wants {:#010x}) returned {:?}", rck::adler32(1, &wrong), dict_id, r1.dict_rc.map(rc_name)));
                return;
            }
            // (3) a different dictionary with the same Adler-32 is accepted ("accepts exactly ... that Adler-32")
            let variant = same_adler_variant(&dict);
            if let Some(v) = &variant {
                if rck::adler32(1, v) != dict_id {
                    o.internal = Some("same-adler variant construction is wrong".into());
                    return;
                }
                io.dict = Some(v);
                let r2 = run_inflate::<Rs>(comp, &sched, &io, ar);
                if r2.dict_rc != Some(Z_OK) {
                    o.fail("inflateSetDictionary/same-adler-rejected", format!("a different dictionary with the same Adler-32 was answered with {:?}", r2.dict_rc.map(rc_name)));
                    return;
                }
                o.class("same-Adler different dictionary accepted");
            }
            // (4) the right one: round trip, C API and wrapper
            io.dict = Some(&dict);
            let r3 = if wrapper { run_inflate_with::<RustApi>(comp, &sched, &io, ar) } else { run_inflate::<Rs>(comp, &sched, &io, ar) };
            if r3.dict_rc != Some(Z_OK) || r3.status != Status::StreamEnd || r3.out != data {
                o.fail("roundtrip/zlib-dict", format!("with the right dictionary: set rc {:?}, final {} (msg {:?}), {} of {} bytes; {} dict {} bytes [{}]", r3.dict_rc.map(rc_name), status_name(r3.status), r3.msg, r3.out.len(), data.len(), cfg.describe(), dict.len(), sched.describe()));
                return;
            }
            if wrapper && r3.need_dict_adler != Some(dict_id as u64) {
                o.fail("Inflate/NeedDict-id", format!("NeedDict {{ dict_id }} = {:?}, expected {:#010x}", r3.need_dict_adler, dict_id));
                return;
            }
            o.class("zlib: NEED_DICT + verify + round trip");
        }
        // manual session for raw flows and for inflateGetDictionary
        {
            let mut strm = zs();
            if unsafe { Rs::inflateInit2(&mut strm, wb) } != Z_OK {
                return;
            }
            let dp = ar.dict.put_right(&dict[..dict.len().min(ar.dict.cap)]);
            let mut hist: Vec<u8> = Vec::new();
            if cfg.wrap == Wrap::Zlib {
                // setting a dictionary before it was asked for is an error on a zlib stream
                let rc = unsafe { Rs::inflateSetDictionary(&mut strm, dp, dict.len() as c_uint) };
                if rc != Z_STREAM_ERROR {
                    o.fail("inflateSetDictionary/zlib-before-need", format!("inflateSetDictionary on a zlib stream before NEED_DICT returned {}", rc_name(rc)));
                    unsafe { Rs::inflateEnd(&mut strm) };
                    return;
                }
            } else if !mid {
                let rc = unsafe { Rs::inflateSetDictionary(&mut strm, dp, dict.len() as c_uint) };
                if rc != Z_OK {
                    o.fail("inflateSetDictionary/raw-status", format!("raw stream: inflateSetDictionary({} bytes) after init returned {}", dict.len(), rc_name(rc)));
                    unsafe { Rs::inflateEnd(&mut strm) };
                    return;
                }
                hist.extend_from_slice(&dict);
            }
            let mut out: Vec<u8> = Vec::new();
            let mut ipos = 0usize;
            let ichunk = t.pick(&[1usize, 13, 500, 4000, 100_000]);
            let ochunk = t.pick(&[1usize, 100, 4000, 40_000, 200_000]).max(if data.len() > 20_000 { 100 } else { 1 });
            let mut did_mid = !mid;
            let mut ngets = 0;
            let mut guard = 0usize;
            let mut done = false;
            let mut asked1 = false;
            while !done {
                guard += 1;
                if guard > 400_000 {
                    break;
                }
                let limit = if !did_mid { def.cut.unwrap_or(comp.len()) } else { comp.len() };
                let end = (ipos + ichunk).min(limit);
                let ip = ar.inp.put_right(&comp[ipos..end]);
                strm.next_in = ip;
                strm.avail_in = (end - ipos) as u32;
                let op = ar.out.right(ochunk);
                strm.next_out = op;
                strm.avail_out = ochunk as u32;
                let rc = unsafe { Rs::inflate(&mut strm, Z_NO_FLUSH) };
                let din = (end - ipos) - strm.avail_in as usize;
                let dout = ochunk - strm.avail_out as usize;
                ipos += din;
                out.extend_from_slice(unsafe { core::slice::from_raw_parts(op, dout) });
                hist.extend_from_slice(unsafe { core::slice::from_raw_parts(op, dout) });
                match rc {
                    Z_OK | Z_BUF_ERROR => {}
                    Z_STREAM_END => done = true,
                    Z_NEED_DICT => {
                        asked1 = true;
                        let rc = unsafe { Rs::inflateSetDictionary(&mut strm, dp, dict.len() as c_uint) };
                        if rc != Z_OK {
                            o.fail("inflateSetDictionary/status", format!("right dictionary after NEED_DICT answered with {}", rc_name(rc)));
                            unsafe { Rs::inflateEnd(&mut strm) };
                            return;
                        }
                        hist.extend_from_slice(&dict);
                    }
                    _ => {
                        o.fail("roundtrip/inflate-status", format!("inflate returned {} (msg {:?}) after {} output bytes; {} dict {} bytes flow {}", rc_name(rc), unsafe { if strm.msg.is_null() { None } else { Some(std::ffi::CStr::from_ptr(strm.msg).to_string_lossy().into_owned()) } }, out.len(), cfg.describe(), dict.len(), flow));
                        unsafe { Rs::inflateEnd(&mut strm) };
                        return;
                    }
                }
                if !did_mid && ipos >= limit && din == 0 && dout == 0 {
                    // everything up to the flush point is consumed and drained: install the dictionary
                    did_mid = true;
                    let rc = unsafe { Rs::inflateSetDictionary(&mut strm, dp, dict.len() as c_uint) };
                    if rc != Z_OK {
                        o.fail("inflateSetDictionary/raw-mid-status", format!("raw stream: inflateSetDictionary at the flush point returned {}", rc_name(rc)));
                        unsafe { Rs::inflateEnd(&mut strm) };
                        return;
                    }
                    hist.extend_from_slice(&dict);
                } else if did_mid && ipos >= comp.len() && din == 0 && dout == 0 && !done {
                    break;
                }
                // inflateGetDictionary between calls
                if !done && ngets < 3 && (get_at >= 2 || hist.len() > 32768) && (guard % 2 == 0) {
                    ngets += 1;
                    let cap = 40_000usize;
                    let gp = ar.aux[1].right(cap);
                    let mut n: c_uint = 0xbeef;
                    let rc = unsafe { Rs::inflateGetDictionary(&mut strm, gp, &mut n) };
                    let want_n = hist.len().min(32768);
                    if rc != Z_OK || n as usize != want_n {
                        o.fail("inflateGetDictionary/length", format!("inflateGetDictionary returned rc {} and {} bytes; dictionary + output so far is {} bytes (expected {}); windowBits {}", rc_name(rc), n, hist.len(), want_n, wb));
                        unsafe { Rs::inflateEnd(&mut strm) };
                        return;
                    }
                    let got = unsafe { core::slice::from_raw_parts(gp, want_n) };
                    if got != &hist[hist.len() - want_n..] {
                        let at_i = got.iter().zip(hist[hist.len() - want_n..].iter()).position(|(a, b)| a != b).unwrap_or(0);
                        o.fail("inflateGetDictionary/content", format!("inflateGetDictionary: the {} bytes returned differ from the last bytes of dictionary + output at offset {}", want_n, at_i));
                        unsafe { Rs::inflateEnd(&mut strm) };
                        return;
                    }
                    if hist.len() > 32768 {
                        o.class("inflateGetDictionary after > 32 KiB of history");
                    }
                    o.class("inflateGetDictionary checked");
                }
            }
            if done && out == data && cfg.wrap == Wrap::Zlib && asked1 {
                // a reused stream: after inflateReset the same zlib stream must demand its dictionary again
                // (reporting the same id, before any output), accept it again and reproduce the data again
                let rrc = unsafe { Rs::inflateReset(&mut strm) };
                let mut out2: Vec<u8> = Vec::new();
                let mut ipos = 0usize;
                let mut asked = false;
                let mut end2 = false;
                let oc = (ar.out.cap - 64).min(1 << 20);
                let mut guard = 0;
                while rrc == Z_OK && guard < 10_000 {
                    guard += 1;
                    let end = (ipos + ar.inp.cap.min(1 << 20)).min(comp.len());
                    strm.next_in = ar.inp.put_right(&comp[ipos..end]);
                    strm.avail_in = (end - ipos) as u32;
                    let op = ar.out.right(oc);
                    strm.next_out = op;
                    strm.avail_out = oc as u32;
                    let rc = unsafe { Rs::inflate(&mut strm, Z_NO_FLUSH) };
                    let din = (end - ipos) - strm.avail_in as usize;
                    let dout = oc - strm.avail_out as usize;
                    ipos += din;
                    out2.extend_from_slice(unsafe { core::slice::from_raw_parts(op, dout) });
                    match rc {
                        Z_NEED_DICT if !asked => {
                            asked = true;
                            if !out2.is_empty() || strm.adler as u32 != dict_id {
                                o.fail("reuse/need-dict-id", format!("after inflateReset: NEED_DICT reported adler {:#010x} (dictionary id {:#010x}) after {} output bytes", strm.adler, dict_id, out2.len()));
                                break;
                            }
                            let rc = unsafe { Rs::inflateSetDictionary(&mut strm, dp, dict.len() as c_uint) };
                            if rc != Z_OK {
                                o.fail("reuse/inflateSetDictionary-status", format!("after inflateReset: right dictionary after NEED_DICT answered with {}", rc_name(rc)));
                                break;
                            }
                        }
                        Z_OK | Z_BUF_ERROR if din + dout > 0 => {}
                        Z_STREAM_END => {
                            end2 = true;
                            break;
                        }
                        _ => break,
                    }
                }
                if o.fail.is_none() && (rrc != Z_OK || !asked || !end2 || out2 != data) {
                    o.fail("reuse/dictionary-not-demanded-again", format!("zlib stream with FDICT decoded a second time after inflateReset (rc {}): NEED_DICT seen {}, stream end {}, {} of {} bytes reproduced; {}", rc_name(rrc), asked, end2, out2.len(), data.len(), cfg.describe()));
                }
                if o.fail.is_some() {
                    unsafe { Rs::inflateEnd(&mut strm) };
                    return;
                }
                o.class("zlib: stream reused after inflateReset demands the dictionary again");
            }
            unsafe { Rs::inflateEnd(&mut strm) };
            if !done || out != data {
                o.fail("roundtrip/data", format!("round trip with dictionary ({} bytes, flow {}): stream end {}, {} of {} bytes; {}", dict.len(), flow, done, out.len(), data.len(), cfg.describe()));
                return;
            }
            // did a match reach into the dictionary? (reference decoder without the dictionary fails or with it reports reach)
            if cfg.wrap != Wrap::Gzip && !dict.is_empty() && !mid {
                let off = if cfg.wrap == Wrap::Zlib { 6 } else { 0 };
                if comp.len() > off {
                    let mut dopts = crate::refimpl::rdec::DecOpts::lenient();
                    dopts.dict = dict[dict.len().saturating_sub(32768)..].to_vec();
                    let r = crate::refimpl::rdec::inflate_raw(&comp[off..], 0, &dopts);
                    reach = r.max_reach_before_start > 0;
                }
            }
        }
        o.class(match flow {
            0 | 1 | 2 => "flow: zlib, dictionary before first call",
            3 | 4 => "flow: raw, dictionary before first call",
            _ => "flow: raw, dictionary at a flush point mid-stream",
        });
        if reach {
            o.class("match reaches into dictionary");
        }
        if dict.len() > w {
            o.class("dictionary longer than window");
        }
        if dict.is_empty() {
            o.class("empty dictionary");
        }
        if wrapper {
            o.class("Rust wrappers");
        }
        if !dict.is_empty() && (reach || dict.len() > w || mid) {
            let mut fp = Fp::new();
            fp.bytes(cfg.describe().as_bytes()).bytes(&dict).bytes(&data).add(flow as u64).add(chunk as u64);
            o.nontrivial = Some(fp.0);
            if ctx.want_sample {
                o.sample = Some(J::obj().set("flow", J::U(flow as u64)).set("config", J::s(cfg.describe())).set("dict_len", J::U(dict.len() as u64)).set("data_len", J::U(data.len() as u64)).set("compressed_len", J::U(def.comp.len() as u64)).set("match_into_dictionary", J::B(reach)).set("mid_stream_cut", J::I(def.cut.map_or(-1, |c| c as i64))));
            }
        }
    });
    o
}

pub fn property() -> Property {
    Property { id: "C13", rule: RULE, phases: vec![Phase::Prop { name: "dictionary flows", f: case, quick: 500_000, thorough: 5_000_000, max_tape: 260 }] }
}
