//! C14 — copied streams behave identically and independently; reset equals fresh init.
use crate::api::*;
use crate::edef::*;
use crate::einf::*;
use crate::gen::*;
use crate::guard::{self, Tracker};
use crate::json::J;
use crate::props::c03::gen_mode;
use crate::refimpl::rgzh::Wrap;
use crate::runner::*;
use crate::tape::{Fp, Tape};
use core::ffi::c_int;

pub const RULE: &str = "tape -> history H (deflate plan as in C01 with dictionaries/gzip headers, or an inflate schedule over a generated valid/invalid/truncated byte string, with starvation so that pending output / a partially copied match / a half-parsed header exists), cut point k, continuation Q. COPY: H[..k] on S, deflateCopy/inflateCopy S->T, then Q on S and T in a generated order (one of them may be ended early) and on a control S' that never was copied; the allocator poisons freed memory so shared buffers show. RESET: H (possibly unfinished, possibly ended in an error) on S, then deflateReset / inflateReset / inflateReset2(same bits) / Deflate::reset / Inflate::reset, then Q on S and on a freshly initialised stream with the current parameters (level/strategy as last set, same gzip header re-installed). Oracle: per call identical (return code, bytes consumed, bytes produced, totals, adler, data_type, produced bytes). Non-trivial = copy taken with non-empty pending output or mid-stream after >= 1 data-moving call, or reset after >= 1 window of data / after an error / mid-stream; distinct by case fingerprint.";

struct DStream {
    strm: Box<z_stream>,
    alive: bool,
    out: Vec<u8>,
    name: &'static str,
}

#[derive(Clone, PartialEq, Debug)]
struct Rec {
    rc: c_int,
    din: u32,
    dout: u32,
    total_in: u64,
    total_out: u64,
    adler: u64,
    data_type: c_int,
    bytes: Vec<u8>,
}

fn rec_diff(a: &Rec, b: &Rec) -> String {
    let mut v = Vec::new();
    if a.rc != b.rc {
        v.push(format!("status {} vs {}", rc_name(a.rc), rc_name(b.rc)));
    }
    if a.din != b.din {
        v.push(format!("consumed {} vs {}", a.din, b.din));
    }
    if a.dout != b.dout {
        v.push(format!("produced {} vs {}", a.dout, b.dout));
    }
    if a.total_in != b.total_in || a.total_out != b.total_out {
        v.push(format!("totals {}/{} vs {}/{}", a.total_in, a.total_out, b.total_in, b.total_out));
    }
    if a.adler != b.adler {
        v.push(format!("adler {:#x} vs {:#x}", a.adler, b.adler));
    }
    if a.data_type != b.data_type {
        v.push(format!("data_type {} vs {}", a.data_type, b.data_type));
    }
    if a.bytes != b.bytes && a.dout == b.dout {
        let at = a.bytes.iter().zip(b.bytes.iter()).position(|(x, y)| x != y).unwrap_or(0);
        v.push(format!("produced bytes differ at offset {}", at));
    }
    v.join(", ")
}

enum DCall {
    Deflate(c_int),
    Params(c_int, c_int),
}

fn d_call(s: &mut DStream, ar: &Arenas, data: &[u8], pos: usize, ic: usize, oc: usize, what: &DCall) -> Rec {
    let ip = ar.inp.put_right(&data[pos..pos + ic]);
    let op = ar.out.right(oc);
    unsafe { core::ptr::write_bytes(op, 0x11, oc) };
    let st = &mut *s.strm;
    st.next_in = ip;
    st.avail_in = ic as u32;
    st.next_out = op;
    st.avail_out = oc as u32;
    let rc = match what {
        DCall::Deflate(f) => unsafe { Rs::deflate(st, *f) },
        DCall::Params(l, sgy) => unsafe { Rs::deflateParams(st, *l, *sgy) },
    };
    let din = (ic as u32).wrapping_sub(st.avail_in);
    let dout = (oc as u32).wrapping_sub(st.avail_out);
    let bytes = unsafe { core::slice::from_raw_parts(op, (dout as usize).min(oc)) }.to_vec();
    s.out.extend_from_slice(&bytes);
    Rec { rc, din, dout, total_in: st.total_in as u64, total_out: st.total_out as u64, adler: st.adler as u64, data_type: st.data_type, bytes }
}

fn d_init(cfg: &DefCfg, level: c_int, strategy: c_int, tr: &Tracker, name: &'static str) -> Option<DStream> {
    let mut strm = Box::new(zs());
    tr.install(&mut strm);
    let rc = unsafe { Rs::deflateInit2(&mut *strm, level, 8, cfg.window_bits_arg(), cfg.mem_level, strategy) };
    if rc != Z_OK {
        return None;
    }
    static mut DUMMY: [u8; 8] = [0; 8];
    strm.next_in = core::ptr::addr_of!(DUMMY) as *const u8;
    strm.next_out = core::ptr::addr_of_mut!(DUMMY) as *mut u8;
    Some(DStream { strm, alive: true, out: Vec::new(), name })
}

/// flatten a plan into (kind, in_chunk, out_chunk, flush/level, strategy)
fn flat_ops(plan: &DefPlan, cap: usize) -> Vec<DefOp> {
    let mut v = Vec::new();
    'o: for _ in 0..plan.cycles.max(1) {
        for op in &plan.ops {
            if v.len() >= cap {
                break 'o;
            }
            v.push(op.clone());
        }
    }
    v
}

/// run `ops` then a finish loop on all live streams in lock-step; streams[0] is the reference
fn lockstep_deflate(streams: &mut Vec<DStream>, ar: &Arenas, plan: &DefPlan, ops: &[DefOp], finish: bool, end_early: Option<(usize, usize)>, copy_at: Option<usize>, tr: &Tracker, o: &mut Outcome, what: &str, order_seed: u64, cur: &mut (c_int, c_int)) -> (usize, bool, bool) {
    let data = &plan.data[..plan.data.len().min(ar.inp.cap)];
    let mut pos = 0usize;
    let mut ncalls = 0usize;
    let mut pending_flush: Option<c_int> = None;
    let mut moved_before_copy = false;
    let mut pending_at_copy = false;
    let mut copied = copy_at.is_none();
    let mut x = crate::tape::Xs::new(order_seed);
    let mut opi = 0usize;
    let mut fin_k = 0usize;
    loop {
        // copy point
        if !copied && Some(ncalls) <= copy_at.map(|c| c) {
            if Some(ncalls) == copy_at {
                copied = true;
                let mut tstrm = Box::new(zs());
                let src: *mut z_stream = &mut *streams[1].strm;
                let rc = unsafe { Rs::deflateCopy(&mut *tstrm, src) };
                if rc != Z_OK {
                    o.fail("deflateCopy/status", format!("{}: deflateCopy after {} calls returned {}", what, ncalls, rc_name(rc)));
                    return (ncalls, moved_before_copy, pending_at_copy);
                }
                let mut pb: core::ffi::c_uint = 0;
                let mut bits: c_int = 0;
                unsafe { Rs::deflatePending(&mut *streams[1].strm, &mut pb, &mut bits) };
                pending_at_copy = pb > 0 || bits > 0;
                let out_so_far = streams[1].out.clone();
                streams.push(DStream { strm: tstrm, alive: true, out: out_so_far, name: "copy" });
            }
        }
        // next call
        let (ic, oc, call, is_finish): (usize, usize, DCall, bool);
        if opi < ops.len() {
            match &ops[opi] {
                DefOp::Deflate { in_chunk, out_chunk, flush } => {
                    let f = pending_flush.unwrap_or(*flush);
                    ic = *in_chunk;
                    oc = *out_chunk;
                    call = DCall::Deflate(f);
                    is_finish = false;
                }
                DefOp::Params { in_chunk, out_chunk, level, strategy } => {
                    if pending_flush.is_some() {
                        opi += 1;
                        continue;
                    }
                    ic = *in_chunk;
                    oc = *out_chunk;
                    call = DCall::Params(*level, *strategy);
                    is_finish = false;
                }
                DefOp::Tune { good, lazy, nice, chain } => {
                    for s in streams.iter_mut() {
                        if s.alive {
                            unsafe { Rs::deflateTune(&mut *s.strm, *good, *lazy, *nice, *chain) };
                        }
                    }
                    opi += 1;
                    continue;
                }
                DefOp::CopySwap => {
                    // this engine has its own copy operations
                    opi += 1;
                    continue;
                }
            }
            opi += 1;
        } else if finish {
            ic = usize::MAX;
            oc = if fin_k > 50_000 { 1 << 20 } else { plan.finish_out[fin_k % plan.finish_out.len()] };
            fin_k += 1;
            call = DCall::Deflate(Z_FINISH);
            is_finish = true;
        } else {
            break;
        }
        let ic = ic.min(data.len() - pos);
        let oc = oc.min(ar.out.cap - 64);
        // early end of one of the twins
        if let Some((at, which)) = end_early {
            if ncalls == at && copied && which < streams.len() && which > 0 && streams[which].alive && streams.iter().filter(|s| s.alive).count() > 2 {
                let rc = unsafe { Rs::deflateEnd(&mut *streams[which].strm) };
                streams[which].alive = false;
                if rc != Z_OK && rc != Z_DATA_ERROR {
                    o.fail("deflateEnd/status", format!("{}: deflateEnd of the {} returned {}", what, streams[which].name, rc_name(rc)));
                    return (ncalls, moved_before_copy, pending_at_copy);
                }
            }
        }
        // order of execution among live streams varies
        let mut order: Vec<usize> = (0..streams.len()).filter(|&i| streams[i].alive).collect();
        if x.below(2) == 0 {
            order.reverse();
        }
        let mut recs: Vec<Option<Rec>> = vec![None; streams.len()];
        for &i in &order {
            recs[i] = Some(d_call(&mut streams[i], ar, data, pos, ic, oc, &call));
        }
        ncalls += 1;
        let r0 = recs[0].clone().unwrap();
        for i in 1..streams.len() {
            if let Some(r) = &recs[i] {
                if *r != r0 {
                    if std::env::var("VERIF_DEBUG").is_ok() {
                        for k in [0usize, i] {
                            // drain both streams to the end for inspection
                            let mut extra = vec![0u8; 1 << 16];
                            let st = &mut *streams[k].strm;
                            st.next_in = data.as_ptr();
                            st.avail_in = 0;
                            st.next_out = extra.as_mut_ptr();
                            st.avail_out = extra.len() as u32;
                            let rc = unsafe { Rs::deflate(st, Z_FINISH) };
                            let n = extra.len() - st.avail_out as usize;
                            let mut full = streams[k].out.clone();
                            full.extend_from_slice(&extra[..n]);
                            eprintln!("stream {} ({}) final rc {} full output {} bytes: {}", k, streams[k].name, rc, full.len(), crate::json::hex(&full));
                        }
                        eprintln!("data: {}", crate::json::hex(data));
                        eprintln!("diverge at call {}: pos {} of {}; ref out so far {} bytes tail {}; other tail {}; ref bytes {:02x?} other bytes {:02x?}; gz {:?}", ncalls, pos, data.len(), streams[0].out.len(), crate::json::hex(&streams[0].out[streams[0].out.len().saturating_sub(24)..]), crate::json::hex(&streams[i].out[streams[i].out.len().saturating_sub(24)..]), r0.bytes, r.bytes, plan.gz);
                    }
                    o.fail(
                        format!("{}/{}-diverges", what, streams[i].name),
                        format!("{}: call {} ({}, avail_in {}, avail_out {}): the {} differs from the {}: {}; {} [{}]", what, ncalls, match call { DCall::Deflate(f) => format!("deflate flush {}", f), DCall::Params(l, s) => format!("deflateParams({},{})", l, s) }, ic, oc, streams[i].name, streams[0].name, rec_diff(r, &r0), plan.cfg.describe(), plan.describe_ops()),
                    );
                    return (ncalls, moved_before_copy, pending_at_copy);
                }
            }
        }
        if !copied && (r0.din > 0 || r0.dout > 0) {
            moved_before_copy = true;
        }
        pos += r0.din as usize;
        let _ = tr;
        if let DCall::Deflate(f) = call {
            if !matches!(r0.rc, Z_OK | Z_BUF_ERROR | Z_STREAM_END) {
                break;
            }
            if f != Z_NO_FLUSH && !is_finish {
                if oc as u32 - r0.dout == 0 {
                    pending_flush = Some(f);
                } else {
                    pending_flush = None;
                }
            }
            if is_finish {
                if r0.rc == Z_STREAM_END {
                    break;
                }
                if oc > 0 && r0.dout == 0 && r0.din == 0 {
                    break; // no progress: C06's business
                }
                if fin_k > 400_000 {
                    break;
                }
            }
        } else {
            if let DCall::Params(l, sg) = call {
                if r0.rc == Z_OK {
                    *cur = (l, sg);
                }
            }
            if !matches!(r0.rc, Z_OK | Z_BUF_ERROR) {
                break;
            }
        }
        if ncalls > 300_000 {
            break;
        }
    }
    (ncalls, moved_before_copy, pending_at_copy)
}

fn end_all(streams: &mut Vec<DStream>) {
    for s in streams.iter_mut() {
        if s.alive {
            unsafe { Rs::deflateEnd(&mut *s.strm) };
            s.alive = false;
        }
    }
}

fn setup_def(s: &mut DStream, plan: &DefPlan, ar: &Arenas, hold: &mut Vec<GzHold>) {
    if let Some(f) = &plan.gz {
        let mut h = make_gz_header(f);
        unsafe { Rs::deflateSetHeader(&mut *s.strm, &mut *h.head) };
        hold.push(h);
    }
    if let Some(d) = &plan.dict {
        let dp = ar.dict.put_right(&d[..d.len().min(ar.dict.cap)]);
        unsafe { Rs::deflateSetDictionary(&mut *s.strm, dp, d.len().min(ar.dict.cap) as u32) };
    }
}

fn tracker_errors(tr: &Tracker, o: &mut Outcome, what: &str) {
    if let Some(e) = tr.first_error() {
        o.fail(format!("{}/allocator-misuse", what), format!("{}: {}", what, e));
    }
}

fn deflate_copy_case(t: &mut Tape, ctx: &Ctx, o: &mut Outcome) {
    let mut po = PlanOpts::standard();
    po.allow_dict = true;
    po.max_len = 150_000;
    let plan = gen_plan(t, &po);
    let ops = flat_ops(&plan, 300);
    let copy_at = t.below(ops.len().min(40) + 3);
    let end_early = if t.bool() { Some((copy_at + 1 + t.below(20), 1 + t.below(2))) } else { None };
    let seed = t.u16() as u64;
    ARENAS.with(|ar| {
        let tr = Tracker::new(t.pick(&[0x00u8, 0xFF, 0xA5, 0x5A]));
        guard::register(&tr);
        let mut hold = Vec::new();
        let mut streams: Vec<DStream> = Vec::new();
        for name in ["control", "original"] {
            match d_init(&plan.cfg, plan.cfg.level, plan.cfg.strategy, &tr, name) {
                Some(mut s) => {
                    setup_def(&mut s, &plan, ar, &mut hold);
                    streams.push(s);
                }
                None => {
                    end_all(&mut streams);
                    guard::unregister(&tr);
                    return;
                }
            }
        }
        let (ncalls, moved, pending) = lockstep_deflate(&mut streams, ar, &plan, &ops, true, end_early, Some(copy_at), &tr, o, "deflateCopy", seed, &mut (0, 0));
        end_all(&mut streams);
        tracker_errors(&tr, o, "deflateCopy");
        if o.fail.is_none() && tr.live_count() > 0 {
            o.class("allocation still live after End (see C18)");
        }
        guard::unregister(&tr);
        if o.fail.is_some() {
            return;
        }
        o.class("deflate copy twin");
        if pending {
            o.class("copy with pending output");
        }
        if end_early.is_some() {
            o.class("one twin ended early");
        }
        if ncalls > copy_at && (pending || moved) {
            let mut fp = Fp::new();
            fp.bytes(plan.cfg.describe().as_bytes()).bytes(&plan.data).bytes(plan.describe_ops().as_bytes()).add(copy_at as u64);
            o.nontrivial = Some(fp.0);
            if ctx.want_sample {
                o.sample = Some(J::obj().set("kind", J::s("deflateCopy twin")).set("config", J::s(plan.cfg.describe())).set("input_len", J::U(plan.data.len() as u64)).set("schedule", J::s(plan.describe_ops())).set("copy_after_call", J::U(copy_at as u64)).set("pending_output_at_copy", J::B(pending)).set("end_early", J::s(format!("{:?}", end_early))).set("calls", J::U(ncalls as u64)));
            }
        }
    });
}

pub fn deflate_reset_case(t: &mut Tape, ctx: &Ctx, o: &mut Outcome) {
    let mut po = PlanOpts::standard();
    po.allow_dict = true;
    po.max_len = 100_000;
    let mut plan1 = gen_plan(t, &po);
    let mut plan2 = gen_plan(t, &po);
    let directed = t.bool();
    if directed {
        // directed class: the history slides a small window, the continuation is a short low-entropy
        // stream with a hash-preserving flush in the middle (stale window/hash state would show)
        plan1.cfg.wbits = t.pick(&[9u32, 9, 10, 11]);
        if plan1.cfg.wrap != Wrap::Zlib && plan1.cfg.wbits == 8 {
            plan1.cfg.wbits = 9;
        }
        let w = 1usize << plan1.cfg.wbits;
        let seed = t.u16() as u64;
        let mut x = crate::tape::Xs::new(seed ^ 0xC14);
        let a1 = 2 + x.below(200);
        // just past one slide: the valid data then ends near w-262.., stale bytes of the history lie above
        plan1.data = (0..2 * w - 262 + x.below(400)).map(|_| b'a'.wrapping_add(x.below(a1) as u8)).collect();
        plan1.dict = None;
        plan1.ops = vec![DefOp::Deflate { in_chunk: plan1.data.len(), out_chunk: 1 << 16, flush: Z_NO_FLUSH }];
        plan1.cycles = 1;
        let a2 = 2 + x.below(3);
        plan2.data = (0..w + x.below(w)).map(|_| b'a' + x.below(a2) as u8).collect();
        let lo = w - 262;
        let cut = lo + x.below(plan2.data.len() - lo);
        plan2.ops = vec![DefOp::Deflate { in_chunk: cut, out_chunk: 1 << 16, flush: t.pick(&[Z_SYNC_FLUSH, Z_PARTIAL_FLUSH, Z_BLOCK, Z_NO_FLUSH]) }];
        plan2.cycles = 1;
        plan2.finish_out = vec![1 << 16];
    }
    plan2.cfg = plan1.cfg;
    plan2.gz = plan1.gz.clone();
    plan2.dict = None;
    let ops1 = flat_ops(&plan1, 200);
    let stop1 = if directed { ops1.len() } else { t.below(ops1.len() + 2) };
    let finish1 = t.bool();
    let ops2 = flat_ops(&plan2, 200);
    let seed = t.u16() as u64;
    let wrapper = t.below(6) == 0;
    ARENAS.with(|ar| {
        if wrapper {
            // Deflate::reset vs Deflate::new_with_config
            let mut p1 = plan1.clone();
            p1.gz = None;
            p1.dict = None;
            let mut p2 = plan2.clone();
            p2.gz = None;
            let cfg = crate::edef::rust_config(&p1.cfg);
            let mut d = match std::panic::catch_unwind(|| zlib_rs::Deflate::new_with_config(cfg)) {
                Ok(d) => d,
                Err(_) => return,
            };
            // history: compress plan1 data partially
            let mut scratch = vec![0u8; 1 << 16];
            let upto = p1.data.len().min(stop1 * 997 % (p1.data.len() + 1));
            let _ = d.compress(&p1.data[..upto], &mut scratch, if finish1 { zlib_rs::DeflateFlush::Finish } else { zlib_rs::DeflateFlush::NoFlush });
            d.reset();
            let mut f = zlib_rs::Deflate::new_with_config(cfg);
            if d.total_in() != 0 || d.total_out() != 0 {
                o.fail("Deflate::reset/totals", format!("after reset total_in {} total_out {}", d.total_in(), d.total_out()));
                return;
            }
            let mut pos = 0;
            let mut o1 = vec![0u8; 1 << 16];
            let mut o2 = vec![0u8; 1 << 16];
            let mut k = 0;
            loop {
                let ic = (p2.data.len() - pos).min(4096 + k * 131);
                let fl = if pos + ic >= p2.data.len() { zlib_rs::DeflateFlush::Finish } else { zlib_rs::DeflateFlush::NoFlush };
                let (a_in, a_out) = (d.total_in(), d.total_out());
                let (b_in, b_out) = (f.total_in(), f.total_out());
                let ra = d.compress(&p2.data[pos..pos + ic], &mut o1, fl);
                let rb = f.compress(&p2.data[pos..pos + ic], &mut o2, fl);
                let (da, db) = ((d.total_in() - a_in, d.total_out() - a_out), (f.total_in() - b_in, f.total_out() - b_out));
                if ra != rb || da != db || o1[..da.1 as usize] != o2[..db.1 as usize] {
                    o.fail("Deflate::reset/diverges", format!("call {}: reset stream {:?} moved {:?}, fresh stream {:?} moved {:?}; {}", k + 1, ra, da, rb, db, p1.cfg.describe()));
                    return;
                }
                pos += da.0 as usize;
                k += 1;
                if matches!(ra, Ok(zlib_rs::Status::StreamEnd)) || ra.is_err() || k > 5000 {
                    break;
                }
            }
            o.class("Deflate::reset twin");
            if upto > 0 {
                let mut fp = Fp::new();
                fp.bytes(p1.cfg.describe().as_bytes()).bytes(&p1.data[..upto]).bytes(&p2.data).add(finish1 as u64);
                o.nontrivial = Some(fp.0);
                if ctx.want_sample {
                    o.sample = Some(J::obj().set("kind", J::s("Deflate::reset vs new")).set("config", J::s(p1.cfg.describe())).set("history_bytes", J::U(upto as u64)).set("finished_before_reset", J::B(finish1)).set("continuation_bytes", J::U(p2.data.len() as u64)));
                }
            }
            return;
        }
        let tr = Tracker::new(t.pick(&[0x00u8, 0xFF, 0xA5]));
        // directed class (drawn last, so older tapes keep their meaning; an exhausted tape reads 0 = off):
        // the history fills the hash tables at a match-finding level and then drops to level 0 with
        // deflateParams before the reset; the continuation starts stored and switches back up with
        // little stored data in between, so neither deflateReset nor deflateParams may rely on the
        // "level 0 never touches the hash" shortcut (seed I12)
        let lvlswitch = t.below(4) == 1;
        let (mut ops1, mut stop1, mut ops2, mut finish1) = (ops1.clone(), stop1, ops2.clone(), finish1);
        if lvlswitch {
            let mut x = crate::tape::Xs::new(seed ^ 0x112);
            plan1.cfg.level = 1 + x.below(9) as c_int;
            plan1.cfg.strategy = 0;
            plan1.dict = None;
            let a1 = 2 + x.below(6);
            let n1 = 64 + x.below(3000);
            plan1.data = (0..n1).map(|_| b'a' + x.below(a1) as u8).collect();
            let small = x.below(120);
            plan1.ops = vec![
                DefOp::Deflate { in_chunk: n1 - small, out_chunk: 1 << 16, flush: [Z_BLOCK, Z_NO_FLUSH, Z_SYNC_FLUSH, Z_PARTIAL_FLUSH][x.below(4)] },
                DefOp::Params { in_chunk: small / 2, out_chunk: 1 << 16, level: 0, strategy: 0 },
            ];
            plan1.cycles = 1;
            plan2.cfg = plan1.cfg;
            plan2.data = if x.below(2) == 0 { plan1.data.clone() } else { (0..64 + x.below(3000)).map(|_| b'a' + x.below(a1) as u8).collect() };
            let pre = x.below(3) * x.below(60);
            let l2 = 1 + x.below(9) as c_int;
            plan2.ops = vec![
                DefOp::Params { in_chunk: pre.min(plan2.data.len()), out_chunk: 1 << 16, level: l2, strategy: 0 },
                DefOp::Deflate { in_chunk: plan2.data.len(), out_chunk: 1 << 16, flush: Z_NO_FLUSH },
            ];
            plan2.cycles = 1;
            plan2.finish_out = vec![1 << 16];
            ops1 = flat_ops(&plan1, 200);
            stop1 = ops1.len();
            ops2 = flat_ops(&plan2, 200);
            finish1 = x.below(2) == 0;
        }
        guard::register(&tr);
        let mut hold = Vec::new();
        let mut s = match d_init(&plan1.cfg, plan1.cfg.level, plan1.cfg.strategy, &tr, "reset stream") {
            Some(s) => s,
            None => {
                guard::unregister(&tr);
                return;
            }
        };
        setup_def(&mut s, &plan1, ar, &mut hold);
        // history on S alone
        let mut only = vec![s];
        let mut scratch = Outcome::new();
        let mut cur = (plan1.cfg.level, plan1.cfg.strategy);
        let (n1, _, _) = lockstep_deflate(&mut only, ar, &plan1, &ops1[..stop1.min(ops1.len())], finish1 && stop1 >= ops1.len(), None, None, &tr, &mut scratch, "history", seed, &mut cur);
        let mut s = only.pop().unwrap();
        // current parameters: level/strategy as last successfully set by deflateParams
        let (lvl, sgy) = cur;
        let rc = unsafe { Rs::deflateReset(&mut *s.strm) };
        if rc != Z_OK {
            o.fail("deflateReset/status", format!("deflateReset after {} calls returned {}", n1, rc_name(rc)));
            unsafe { Rs::deflateEnd(&mut *s.strm) };
            guard::unregister(&tr);
            return;
        }
        s.out.clear();
        s.name = "reset stream";
        let mut f = match d_init(&plan1.cfg, lvl, sgy, &tr, "fresh stream") {
            Some(f) => f,
            None => {
                unsafe { Rs::deflateEnd(&mut *s.strm) };
                guard::unregister(&tr);
                return;
            }
        };
        if let Some(fl) = &plan1.gz {
            let mut h = make_gz_header(fl);
            unsafe { Rs::deflateSetHeader(&mut *f.strm, &mut *h.head) };
            hold.push(h);
        }
        let mut both = vec![f, s];
        let (n2, _, _) = lockstep_deflate(&mut both, ar, &plan2, &ops2, true, None, None, &tr, o, "deflateReset", seed ^ 1, &mut (0, 0));
        end_all(&mut both);
        tracker_errors(&tr, o, "deflateReset");
        guard::unregister(&tr);
        if o.fail.is_some() {
            return;
        }
        o.class("deflate reset twin");
        if lvlswitch {
            o.class("reset at level 0 after a match-finding history, continuation switches level up");
        }
        let w = 1usize << plan1.cfg.eff_wbits();
        let big_hist = plan1.data.len() >= w && n1 >= 1;
        let midstream = !(finish1 && stop1 >= ops1.len());
        if midstream {
            o.class("reset mid-stream");
        }
        if big_hist {
            o.class("reset after >= 1 window of data");
        }
        if n1 >= 1 && n2 >= 1 && (big_hist || midstream || lvlswitch) && !plan1.data.is_empty() {
            let mut fp = Fp::new();
            fp.bytes(plan1.cfg.describe().as_bytes()).bytes(&plan1.data).bytes(plan1.describe_ops().as_bytes()).bytes(&plan2.data).bytes(plan2.describe_ops().as_bytes()).add(stop1 as u64);
            o.nontrivial = Some(fp.0);
            if ctx.want_sample {
                o.sample = Some(J::obj().set("kind", J::s("deflateReset vs fresh init")).set("config", J::s(plan1.cfg.describe())).set("history", J::s(format!("{} bytes, {} calls, finished {}: {}", plan1.data.len(), n1, !midstream, plan1.describe_ops()))).set("continuation", J::s(format!("{} bytes: {}", plan2.data.len(), plan2.describe_ops()))));
            }
        }
    });
}

// ------------------------------------------------------------------------------------------------
// inflate twins

struct IStream {
    strm: Box<z_stream>,
    alive: bool,
    name: &'static str,
}

fn i_call(s: &mut IStream, ar: &Arenas, data: &[u8], pos: usize, ic: usize, oc: usize, flush: c_int) -> Rec {
    let ip = ar.inp.put_right(&data[pos..pos + ic]);
    let op = ar.out.right(oc);
    unsafe { core::ptr::write_bytes(op, 0x22, oc) };
    let st = &mut *s.strm;
    st.next_in = ip;
    st.avail_in = ic as u32;
    st.next_out = op;
    st.avail_out = oc as u32;
    let rc = unsafe { Rs::inflate(st, flush) };
    let din = (ic as u32).wrapping_sub(st.avail_in);
    let dout = (oc as u32).wrapping_sub(st.avail_out);
    let bytes = unsafe { core::slice::from_raw_parts(op, (dout as usize).min(oc)) }.to_vec();
    Rec { rc, din, dout, total_in: st.total_in as u64, total_out: st.total_out as u64, adler: st.adler as u64, data_type: st.data_type, bytes }
}

fn sched_steps(s: &InfSchedule, cap: usize) -> Vec<InfStep> {
    let mut v = Vec::new();
    'o: for _ in 0..s.cycles.max(1) {
        for st in &s.steps {
            if v.len() >= cap {
                break 'o;
            }
            v.push(*st);
        }
    }
    v
}

/// run steps (then tail) on all live streams in lock-step; returns (calls, terminal rc)
fn lockstep_inflate(streams: &mut Vec<IStream>, ar: &Arenas, data: &[u8], sched: &InfSchedule, max_steps: Option<usize>, copy_at: Option<usize>, end_early: Option<(usize, usize)>, o: &mut Outcome, what: &str, seed: u64) -> (usize, c_int, bool) {
    lockstep_inflate_dict(streams, ar, data, sched, max_steps, copy_at, end_early, o, what, seed, None)
}

fn lockstep_inflate_dict(streams: &mut Vec<IStream>, ar: &Arenas, data: &[u8], sched: &InfSchedule, max_steps: Option<usize>, copy_at: Option<usize>, end_early: Option<(usize, usize)>, o: &mut Outcome, what: &str, seed: u64, dict: Option<&[u8]>) -> (usize, c_int, bool) {
    let steps = sched_steps(sched, 400);
    let mut pos = 0usize;
    let mut n = 0usize;
    let mut last_rc = Z_OK;
    let mut stall = 0;
    let mut x = crate::tape::Xs::new(seed);
    let mut midblock_at_copy = false;
    let mut copied = copy_at.is_none();
    loop {
        if !copied && Some(n) == copy_at {
            copied = true;
            let mut tstrm = Box::new(zs());
            let src: *mut z_stream = &mut *streams[1].strm;
            midblock_at_copy = streams[1].strm.data_type & 128 == 0 && n > 0;
            let rc = unsafe { Rs::inflateCopy(&mut *tstrm, src) };
            if rc != Z_OK {
                o.fail("inflateCopy/status", format!("{}: inflateCopy after {} calls returned {}", what, n, rc_name(rc)));
                return (n, last_rc, midblock_at_copy);
            }
            streams.push(IStream { strm: tstrm, alive: true, name: "copy" });
        }
        if let Some(m) = max_steps {
            if n >= m {
                break;
            }
        }
        let (ic, oc, flush) = if n < steps.len() {
            (steps[n].in_chunk, steps[n].out_chunk, steps[n].flush)
        } else if max_steps.is_some() {
            break;
        } else if stall >= 2 {
            (usize::MAX, 1 << 20, Z_NO_FLUSH)
        } else {
            (sched.tail_in, sched.tail_out, Z_NO_FLUSH)
        };
        let ic = ic.min(data.len() - pos).min(ar.inp.cap);
        let oc = oc.min(ar.out.cap - 64);
        if let Some((at, which)) = end_early {
            if n == at && copied && which > 0 && which < streams.len() && streams[which].alive && streams.iter().filter(|s| s.alive).count() > 2 {
                unsafe { Rs::inflateEnd(&mut *streams[which].strm) };
                streams[which].alive = false;
            }
        }
        let mut order: Vec<usize> = (0..streams.len()).filter(|&i| streams[i].alive).collect();
        if x.below(2) == 0 {
            order.reverse();
        }
        let mut recs: Vec<Option<Rec>> = vec![None; streams.len()];
        for &i in &order {
            recs[i] = Some(i_call(&mut streams[i], ar, data, pos, ic, oc, flush));
        }
        n += 1;
        let r0 = recs[0].clone().unwrap();
        for i in 1..streams.len() {
            if let Some(r) = &recs[i] {
                if *r != r0 {
                    o.fail(format!("{}/{}-diverges", what, streams[i].name), format!("{}: call {} (inflate flush {}, avail_in {}, avail_out {}): the {} differs from the {}: {} [{}]", what, n, flush, ic, oc, streams[i].name, streams[0].name, rec_diff(r, &r0), sched.describe()));
                    return (n, last_rc, midblock_at_copy);
                }
            }
        }
        pos += r0.din as usize;
        last_rc = r0.rc;
        if r0.rc == Z_NEED_DICT {
            if let Some(d) = dict {
                // every stream asked for the dictionary: hand it to all of them, they must answer alike
                let dp = ar.dict.put_right(&d[..d.len().min(ar.dict.cap)]);
                let mut rcs = Vec::new();
                for s in streams.iter_mut().filter(|s| s.alive) {
                    rcs.push(unsafe { Rs::inflateSetDictionary(&mut *s.strm, dp, d.len().min(ar.dict.cap) as u32) });
                }
                if rcs.iter().any(|&r| r != rcs[0]) {
                    o.fail(format!("{}/inflateSetDictionary-diverges", what), format!("{}: inflateSetDictionary after NEED_DICT at call {} answered {:?} on the twins", what, n, rcs.iter().map(|&r| rc_name(r)).collect::<Vec<_>>()));
                    return (n, last_rc, midblock_at_copy);
                }
                if rcs[0] == Z_OK {
                    continue;
                }
            }
        }
        if !matches!(r0.rc, Z_OK | Z_BUF_ERROR) {
            break;
        }
        if n >= steps.len() {
            if r0.din == 0 && r0.dout == 0 {
                stall += 1;
                if stall >= 3 {
                    break;
                }
            } else {
                stall = 0;
            }
        }
        if n > 200_000 {
            break;
        }
    }
    (n, last_rc, midblock_at_copy)
}

fn i_init(wbits: c_int, tr: &Tracker, name: &'static str) -> Option<IStream> {
    let mut strm = Box::new(zs());
    tr.install(&mut strm);
    if unsafe { Rs::inflateInit2(&mut *strm, wbits) } != Z_OK {
        return None;
    }
    // valid (empty) buffers from the start: a z_stream whose next_out is still NULL is C16's business
    static mut DUMMY: [u8; 8] = [0; 8];
    strm.next_in = core::ptr::addr_of!(DUMMY) as *const u8;
    strm.next_out = core::ptr::addr_of_mut!(DUMMY) as *mut u8;
    Some(IStream { strm, alive: true, name })
}

fn i_end_all(v: &mut Vec<IStream>) {
    for s in v.iter_mut() {
        if s.alive {
            unsafe { Rs::inflateEnd(&mut *s.strm) };
            s.alive = false;
        }
    }
}

fn inflate_copy_case(t: &mut Tape, ctx: &Ctx, o: &mut Outcome) {
    let so = SubjectOpts::all();
    let s = gen_subject(t, &so);
    let (mode, _) = gen_mode(t, &s);
    let sched = gen_inf_schedule(t);
    let nsteps = (sched.steps.len() * sched.cycles).min(400);
    let copy_at = t.below(nsteps.min(30) + 3);
    let end_early = if t.bool() { Some((copy_at + 1 + t.below(10), 1 + t.below(2))) } else { None };
    let seed = t.u16() as u64;
    ARENAS.with(|ar| {
        let tr = Tracker::new(t.pick(&[0x00u8, 0xFF, 0xA5]));
        guard::register(&tr);
        let mut v = Vec::new();
        for name in ["control", "original"] {
            match i_init(mode.arg(), &tr, name) {
                Some(s) => v.push(s),
                None => {
                    i_end_all(&mut v);
                    guard::unregister(&tr);
                    return;
                }
            }
        }
        let (n, _rc, mid) = lockstep_inflate(&mut v, ar, &s.bytes, &sched, None, Some(copy_at), end_early, o, "inflateCopy", seed);
        i_end_all(&mut v);
        tracker_errors(&tr, o, "inflateCopy");
        guard::unregister(&tr);
        if o.fail.is_some() {
            return;
        }
        o.class("inflate copy twin");
        if mid {
            o.class("copy inside a block");
        }
        if n > copy_at && copy_at > 0 && mid {
            let mut fp = Fp::new();
            fp.bytes(&s.bytes).add(mode.arg() as u64).bytes(sched.describe().as_bytes()).add(copy_at as u64);
            o.nontrivial = Some(fp.0);
            if ctx.want_sample {
                o.sample = Some(J::obj().set("kind", J::s("inflateCopy twin")).set("label", J::s(format!("{:?}", s.label))).set("windowBits", J::I(mode.arg() as i64)).set("schedule", J::s(sched.describe())).set("copy_after_call", J::U(copy_at as u64)).set("calls", J::U(n as u64)));
            }
        }
    });
}

pub fn inflate_reset_case(t: &mut Tape, ctx: &Ctx, o: &mut Outcome) {
    inflate_reset_case_opts(t, ctx, o, true)
}

/// `allow_sync` = false: no inflateSync in the history (C10 borrows this twin for "stale memory after reuse"; what
/// inflateSync does to the checking mode is a documented state change, C14's business - see K4)
pub fn inflate_reset_case_opts(t: &mut Tape, ctx: &Ctx, o: &mut Outcome, allow_sync: bool) {
    let so = SubjectOpts::all();
    let s1 = gen_subject(t, &so);
    let s2 = gen_subject(t, &so);
    let (mode, _) = gen_mode(t, &s2);
    let mode1_same_family = t.bool();
    let sched1 = gen_inf_schedule(t);
    let sched2 = gen_inf_schedule(t);
    let stop1 = if t.bool() { Some(t.below(20)) } else { None };
    let how = t.below(4);
    let seed = t.u16() as u64;
    // (decoded last, so older tapes keep their meaning) zlib streams with a preset dictionary as history and/or
    // continuation: "a dictionary was supplied" is part of the state a reset must forget
    let dmode = if how == 3 { 0 } else { t.below(5) };
    // inflateSync in the history (3: on bytes without a marker -> fails; 4, 5: with a 00 00 FF FF marker -> succeeds),
    // and then a continuation whose trailer is damaged: whether checking is still on is part of "like a fresh stream"
    let sync_mode = if how == 3 { 0 } else { t.below(6) };
    let sync_mode = if allow_sync { sync_mode } else { 0 };
    let damage_trailer = sync_mode >= 3 && t.bool();
    let (mut s1, mut s2) = (s1, s2);
    let mut mode_arg_override: Option<c_int> = None;
    let mut dicts: (Option<Vec<u8>>, Option<Vec<u8>>) = (None, None);
    if dmode != 0 {
        let mut x = crate::tape::Xs::new(seed ^ 0xD1C7);
        let mut mk = |x: &mut crate::tape::Xs| -> Option<(Vec<u8>, Vec<u8>, Vec<u8>)> {
            let dl = 1 + x.below(600);
            let dict: Vec<u8> = (0..dl).map(|_| b'a' + x.below(5) as u8).collect();
            let n = 20 + x.below(6000);
            let data: Vec<u8> = (0..n).map(|i| if i < dl && x.below(8) != 0 { dict[i] } else { b'a' + x.below(6) as u8 }).collect();
            let cfg = DefCfg { level: 1 + x.below(9) as c_int, strategy: 0, wrap: Wrap::Zlib, wbits: 15, mem_level: 8 };
            let bytes = deflate_oneshot::<Ng>(&cfg, &data, Some(&dict))?;
            Some((bytes, data, dict))
        };
        // the continuation is a dictionary stream (dmode 2, 3, 4); the history too (dmode 1, 3) - with a plain
        // inflateReset both use the same windowBits, so a dictionary history needs a zlib-capable continuation
        if dmode >= 2 || how != 1 {
            if let Some((b, d, dc)) = mk(&mut x) {
                s2.bytes = b;
                s2.out = d;
                s2.wrap = Wrap::Zlib;
                dicts.1 = Some(dc);
                mode_arg_override = Some(if x.below(3) == 0 { 47 } else { 15 });
            }
        }
        if dmode == 1 || dmode == 3 {
            if let Some((b, d, dc)) = mk(&mut x) {
                s1.bytes = b;
                s1.out = d;
                s1.wrap = Wrap::Zlib;
                dicts.0 = Some(dc);
            }
        }
    }
    if damage_trailer && s2.wrap != Wrap::Raw && matches!(s2.label, Label::Valid | Label::Encoded(_)) && s2.stream_len >= 8 && s2.stream_len <= s2.bytes.len() {
        let at = s2.stream_len - 1 - (seed as usize % 4);
        s2.bytes[at] ^= 1 << ((seed >> 3) & 7);
    }
    let fill = if how != 3 { t.pick(&[0x00u8, 0xFF, 0xA5]) } else { 0 };
    let wb1_alt = if how == 1 && !mode1_same_family { Some(t.pick(&[-15, 15, 31, 47, -9, 9])) } else { None };
    // model: how the "fresh" twin is initialised - 0: inflateInit2(windowBits) (what the property says);
    // 1 / 2: what zlib documents for a stream that went through a successful inflateSync (raw / checking off)
    let core = |model: u8, o: &mut Outcome| -> bool {
      let mut sync_ok = false;
      ARENAS.with(|ar| {
        if how == 3 {
            // Inflate::reset(zlib_header) == Inflate::new(zlib_header, 15)
            let hdr = s2.wrap != Wrap::Raw;
            if s2.wrap == Wrap::Gzip {
                return;
            }
            let mut a = zlib_rs::Inflate::new(s1.wrap != Wrap::Raw, 15);
            let mut scratch = vec![0u8; 1 << 16];
            let _ = a.decompress(&s1.bytes, &mut scratch, zlib_rs::InflateFlush::NoFlush);
            a.reset(hdr);
            let mut b = zlib_rs::Inflate::new(hdr, 15);
            let mut pos = 0;
            let mut k = 0;
            let mut o1 = vec![0u8; 1 << 15];
            let mut o2 = vec![0u8; 1 << 15];
            loop {
                let ic = (s2.bytes.len() - pos).min(1 + k * 17);
                let (ai, ao, bi, bo) = (a.total_in(), a.total_out(), b.total_in(), b.total_out());
                let ra = a.decompress(&s2.bytes[pos..pos + ic], &mut o1, zlib_rs::InflateFlush::NoFlush);
                let rb = b.decompress(&s2.bytes[pos..pos + ic], &mut o2, zlib_rs::InflateFlush::NoFlush);
                let (da, db) = ((a.total_in() - ai, a.total_out() - ao), (b.total_in() - bi, b.total_out() - bo));
                if ra != rb || da != db || o1[..da.1 as usize] != o2[..db.1 as usize] {
                    o.fail("Inflate::reset/diverges", format!("call {}: reset stream {:?} moved {:?}, Inflate::new stream {:?} moved {:?}", k + 1, ra, da, rb, db));
                    return;
                }
                pos += da.0 as usize;
                k += 1;
                if ra.is_err() || matches!(ra, Ok(zlib_rs::Status::StreamEnd)) || (pos >= s2.bytes.len() && da == (0, 0)) || k > 5000 {
                    break;
                }
            }
            o.class("Inflate::reset twin");
            let mut fp = Fp::new();
            fp.bytes(&s1.bytes).bytes(&s2.bytes).add(hdr as u64);
            if s1.bytes.len() > 8 {
                o.nontrivial = Some(fp.0);
                if ctx.want_sample {
                    o.sample = Some(J::obj().set("kind", J::s("Inflate::reset vs Inflate::new")).set("history", J::s(format!("{:?} {} bytes", s1.label, s1.bytes.len()))).set("continuation", J::s(format!("{:?} {} bytes", s2.label, s2.bytes.len()))));
                }
            }
            return;
        }
        let tr = Tracker::new(fill);
        guard::register(&tr);
        // history stream: same windowBits argument as the continuation needs (reset keeps it), or another one for Reset2
        let mut wb2 = mode_arg_override.unwrap_or(mode.arg());
        if how != 1 && matches!(wb2, 0 | 32) {
            // windowBits 0 means "take the window from the zlib header": like zlib, the value taken from the
            // first stream's header then IS the stream's parameter, so a plain inflateReset is not comparable
            // with a fresh inflateInit2(.., 0); inflateReset2(.., 0) is.
            wb2 += 15;
        }
        let wb1 = wb1_alt.unwrap_or(wb2);
        let wb1 = if dicts.0.is_some() && how == 1 { 15 } else { wb1 };
        let mut st = match i_init(wb1, &tr, "reset stream") {
            Some(s) => s,
            None => {
                guard::unregister(&tr);
                return;
            }
        };
        let mut only = vec![st];
        let mut scratch = Outcome::new();
        let (n1, rc1, _) = lockstep_inflate_dict(&mut only, ar, &s1.bytes, &sched1, stop1, None, None, &mut scratch, "history", seed, dicts.0.as_deref());
        st = only.pop().unwrap();
        if sync_mode >= 3 {
            let mut b: Vec<u8> = vec![0x55, 0xAA, 0x55, 0x12, 0x34];
            if sync_mode >= 4 {
                b.extend_from_slice(&[0, 0, 0xFF, 0xFF, 0x03, 0x00]);
            }
            let ip = ar.inp.put_right(&b);
            st.strm.next_in = ip;
            st.strm.avail_in = b.len() as u32;
            let src = unsafe { Rs::inflateSync(&mut *st.strm) };
            sync_ok = src == Z_OK;
        }
        if std::env::var("VERIF_DEBUG").is_ok() {
            eprintln!("inflate reset: how {} wb1 {} wb2 {} hist {:?} {} bytes ({}) n1 {} rc1 {} sched1 {} | cont {:?} {} bytes ({})", how, wb1, wb2, s1.label, s1.bytes.len(), crate::json::hex_cut(&s1.bytes, 64), n1, rc1, sched1.describe(), s2.label, s2.bytes.len(), crate::json::hex_cut(&s2.bytes, 64));
        }
        let (rc, rname) = match how {
            0 => (unsafe { Rs::inflateReset(&mut *st.strm) }, "inflateReset"),
            1 => (unsafe { Rs::inflateReset2(&mut *st.strm, wb2) }, "inflateReset2"),
            _ => (unsafe { Rs::inflateReset(&mut *st.strm) }, "inflateReset"),
        };
        if rc != Z_OK {
            o.fail(format!("{}/status", rname), format!("{} after {} calls (last {}) returned {}", rname, n1, rc_name(rc1), rc_name(rc)));
            unsafe { Rs::inflateEnd(&mut *st.strm) };
            guard::unregister(&tr);
            return;
        }
        let fresh = match i_init(if model == 1 { -15 } else { wb2 }, &tr, "fresh stream") {
            Some(s) => s,
            None => {
                unsafe { Rs::inflateEnd(&mut *st.strm) };
                guard::unregister(&tr);
                return;
            }
        };
        let mut fresh = fresh;
        if model == 2 {
            unsafe { Rs::inflateValidate(&mut *fresh.strm, 0) };
        }
        let mut both = vec![fresh, st];
        // gzip header capture on both (a stale parser offset in the reused stream shows up in the captured fields)
        struct Cap {
            head: Box<gz_header>,
            bufs: [Vec<u8>; 3],
        }
        let mut caps: Vec<Cap> = Vec::new();
        let want_capture = seed & 1 == 0 && matches!(wb2, 24..=31 | 40..=47);
        if want_capture {
            let caplen = [0usize, 1, 16, 300, 70000][(seed as usize >> 1) % 5];
            let mut rcs = Vec::new();
            for s in both.iter_mut() {
                let mut c = Cap { head: Box::new(gz_header::default()), bufs: [vec![0xC3u8; caplen + 1], vec![0xC3u8; caplen + 1], vec![0xC3u8; caplen + 1]] };
                c.head.extra = c.bufs[0].as_mut_ptr();
                c.head.extra_max = caplen as u32;
                c.head.name = c.bufs[1].as_mut_ptr();
                c.head.name_max = caplen as u32;
                c.head.comment = c.bufs[2].as_mut_ptr();
                c.head.comm_max = caplen as u32;
                rcs.push(unsafe { Rs::inflateGetHeader(&mut *s.strm, &mut *c.head) });
                caps.push(c);
            }
            if rcs[0] != rcs[1] {
                o.fail(format!("{}/inflateGetHeader-diverges", rname), format!("{}: inflateGetHeader answered {} on the fresh stream and {} on the reset one", rname, rc_name(rcs[0]), rc_name(rcs[1])));
            }
        }
        let (n2, _, _) = lockstep_inflate_dict(&mut both, ar, &s2.bytes, &sched2, None, None, None, o, rname, seed ^ 3, dicts.1.as_deref());
        i_end_all(&mut both);
        if sync_mode >= 3 {
            o.class(if sync_ok { "inflate reset: history with a successful inflateSync" } else { "inflate reset: history with a failed inflateSync" });
        }
        if caps.len() == 2 && o.fail.is_none() {
            let (a, b) = (&caps[0], &caps[1]);
            let fixed = |h: &gz_header| (h.text, h.time, h.xflags, h.os, h.extra_len, h.hcrc, h.done, h.extra.is_null(), h.name.is_null(), h.comment.is_null());
            if fixed(&a.head) != fixed(&b.head) || a.bufs != b.bufs {
                o.fail(format!("{}/captured-header-diverges", rname), format!("{}: the gzip header captured by the reset stream differs from the one captured by a fresh stream: (text,time,xflags,os,extra_len,hcrc,done,null flags) {:?} vs {:?}; buffers equal: extra {} name {} comment {}", rname, fixed(&b.head), fixed(&a.head), a.bufs[0] == b.bufs[0], a.bufs[1] == b.bufs[1], a.bufs[2] == b.bufs[2]));
            }
            o.class("inflate reset twin with header capture");
        }
        tracker_errors(&tr, o, rname);
        guard::unregister(&tr);
        if o.fail.is_some() {
            return;
        }
        o.class("inflate reset twin");
        if dicts.0.is_some() {
            o.class("inflate reset: history used a preset dictionary");
        }
        if dicts.1.is_some() {
            o.class("inflate reset: continuation needs a preset dictionary");
        }
        let after_error = rc1 == Z_DATA_ERROR;
        if after_error {
            o.class("reset after DATA_ERROR");
        }
        if rc1 == Z_OK || rc1 == Z_BUF_ERROR {
            o.class("reset mid-stream");
        }
        if how == 1 && wb1 != wb2 {
            o.class("inflateReset2 changes windowBits");
        }
        if n1 >= 1 && n2 >= 1 && s1.bytes.len() > 8 {
            let mut fp = Fp::new();
            fp.bytes(&s1.bytes).bytes(&s2.bytes).add(wb1 as u64).add(wb2 as u64).add(how as u64).bytes(sched1.describe().as_bytes());
            o.nontrivial = Some(fp.0);
            if ctx.want_sample {
                o.sample = Some(J::obj().set("kind", J::s(format!("{} vs fresh inflateInit2", rname))).set("history", J::s(format!("{:?} {} bytes, windowBits {}, {} calls, last status {}", s1.label, s1.bytes.len(), wb1, n1, rc_name(rc1)))).set("continuation", J::s(format!("{:?} {} bytes, windowBits {}: {}", s2.label, s2.bytes.len(), wb2, sched2.describe()))));
            }
        }
      });
      sync_ok
    };
    let sync_ok = core(0, o);
    if sync_ok && how != 1 && o.fail.is_some() {
        // zlib's documented behaviour: a successful inflateSync makes the stream raw (no header seen yet) or switches
        // checking off, and inflateReset keeps that. Is the divergence exactly that? Compare the reset stream with a
        // fresh one set up the same way; only if one of them matches is this the listed finding.
        let orig = o.fail.take();
        let mut explained = false;
        for model in [1u8, 2u8] {
            let mut o2 = Outcome::new();
            core(model, &mut o2);
            if o2.fail.is_none() {
                explained = true;
                break;
            }
        }
        if explained {
            let m = orig.map(|f| f.msg).unwrap_or_default();
            o.fail("inflateReset/after-successful-inflateSync", format!("inflateReset after a successful inflateSync does not restore the wrapper / checksum checking that inflateSync switched off: the reset stream behaves like a raw or unchecked stream, not like a fresh inflateInit2 one ({})", m));
        } else {
            o.fail = orig;
        }
    }
}

pub fn case(tape: &[u8], ctx: &Ctx) -> Outcome {
    let mut o = Outcome::new();
    let mut t = Tape::new(tape);
    match t.below(4) {
        0 => deflate_copy_case(&mut t, ctx, &mut o),
        1 => deflate_reset_case(&mut t, ctx, &mut o),
        2 => inflate_copy_case(&mut t, ctx, &mut o),
        _ => inflate_reset_case(&mut t, ctx, &mut o),
    }
    o
}

pub fn property() -> Property {
    Property { id: "C14", rule: RULE, phases: vec![Phase::Prop { name: "copy and reset twins", f: case, quick: 80_000, thorough: 2_500_000, max_tape: 420 }] }
}
