//! C16 — the C API gives zlib-ng's status codes and data movement for any call sequence.
use crate::api::*;
use crate::einf::*;
use crate::eprog::*;
use crate::json::J;
use crate::runner::*;
use crate::tape::{Fp, Tape};

pub const RULE: &str = "tape -> program of <= 48 operations over two deflate slots (second one filled by deflateCopy), one inflate slot, the one-shot helpers and the checksum functions, on a generated data pool and a compressed pool (zlib-ng output, sometimes mutated / with trailing bytes): deflateInit2, deflate (any flush incl. invalid values), deflateParams, deflateTune, deflatePrime, deflatePending, deflateBound, deflateSetDictionary, deflateGetDictionary, deflateSetHeader, deflateReset(Keep), deflateCopy, deflateEnd, inflateInit2, inflate, inflateReset/Reset2/ResetKeep, inflateCopy, inflateEnd, inflateSetDictionary, inflateGetDictionary, inflateGetHeader, inflatePrime, inflateSync, inflateSyncPoint, inflateMark, inflateValidate, inflateUndermine, inflateCodesUsed, compress2, uncompress(2), compressBound, adler32, crc32; integer arguments from {legal range, just outside it, 0, -1, INT_MIN/MAX}; NULL stream / NULL buffers where zlib defines the result; calls before init, after end. Excluded (undefined for both libraries): cross-type calls, garbage or struct-copied z_stream, dangling header pointers. zlib-ng runs first in a forked child (crash => case dropped), then both in lock-step. Oracle: per operation equal return value; for data-moving operations equal bytes consumed, produced and output bytes; compared extras: deflatePending values, deflateBound, dictionary from deflateGetDictionary, NEED_DICT id, data_type, codes used, checksum values. Not compared (as the property says): totals after NEED_DICT, inflateMark value, inflateGetDictionary length, msg. Non-trivial = >= 1 data-moving call after >= 1 unusual operation, or >= 1 out-of-range argument both reject; distinct by program fingerprint.";

fn unusual(op: &Op) -> bool {
    !matches!(op, Op::DInit { .. } | Op::DDeflate { .. } | Op::IInit { .. } | Op::IInflate { .. } | Op::DEnd { .. } | Op::IEnd)
}

fn moves(op: &Op, r: &OpRes) -> bool {
    matches!(op, Op::DDeflate { .. } | Op::IInflate { .. } | Op::DParams { .. }) && (r.din > 0 || r.dout > 0)
}

pub fn case(tape: &[u8], ctx: &Ctx) -> Outcome {
    let mut o = Outcome::new();
    let mut t = Tape::new(tape);
    let mut p = gen_program(&mut t, true, 48);
    // (decoded after the program, so older tapes keep their meaning) inflate input with SYNC/FULL flush markers and
    // extra inflateSync / inflate steps: without markers inflateSync can only ever answer Z_DATA_ERROR
    if t.chance(70) {
        let iw = p.ops.iter().find_map(|o| if let Op::IInit { wbits } = o { Some(*wbits) } else { None });
        if let Some(w) = iw {
            let wrap = match w {
                -15..=-8 => Some(crate::refimpl::rgzh::Wrap::Raw),
                8..=15 | 40..=47 => Some(crate::refimpl::rgzh::Wrap::Zlib),
                24..=31 => Some(crate::refimpl::rgzh::Wrap::Gzip),
                _ => None,
            };
            if let (Some(wrap), true) = (wrap, p.data.len() >= 8) {
                let cfg = crate::gen::DefCfg { level: t.pick(&[1, 6, 9, 0]), strategy: 0, wrap, wbits: 15, mem_level: 8 };
                let k = 1 + t.below(3);
                let mut cuts: Vec<usize> = (0..k).map(|_| t.below(p.data.len())).collect();
                cuts.sort();
                let fl = if t.bool() { Z_FULL_FLUSH } else { Z_SYNC_FLUSH };
                if let Some(mut c) = crate::gen::deflate_flushed::<Ng>(&cfg, &p.data, &cuts, fl) {
                    if t.bool() && c.len() > 12 {
                        let at = 2 + t.below(c.len() - 2);
                        c[at] ^= 1 << t.below(8);
                    }
                    p.comp = c;
                    let first = p.ops.iter().position(|o| matches!(o, Op::IInit { .. })).unwrap();
                    for _ in 0..1 + t.below(4) {
                        let at = first + 1 + t.below(p.ops.len() - first);
                        let op = if t.below(3) == 0 { Op::IInflate { in_len: t.pick(&[1usize, 5, 16, 100, 1000, 70000]), out_len: t.pick(&[0usize, 1, 100, 5000, 70000]), flush: 0 } } else { Op::ISync { in_len: t.pick(&[0usize, 1, 2, 3, 4, 5, 9, 100, 1000, 70000]) } };
                        p.ops.insert(at, op);
                    }
                }
            }
        }
    }
    // gzip input with a hand-built header (FEXTRA / FNAME / FCOMMENT / FHCRC in every combination, made by the
    // reference generator around a zlib-ng raw deflate body) and an early inflateValidate / inflateGetHeader
    if t.chance(50) {
        let first = p.ops.iter().position(|o| matches!(o, Op::IInit { wbits } if *wbits >= 24));
        if let (Some(first), true) = (first, p.data.len() >= 4) {
            let cfg = crate::gen::DefCfg { level: 6, strategy: 0, wrap: crate::refimpl::rgzh::Wrap::Raw, wbits: 15, mem_level: 8 };
            if let Some(body) = crate::gen::deflate_oneshot::<Ng>(&cfg, &p.data, None) {
                let big = t.bool();
                let f = crate::refimpl::rgen::gen_gz_fields(&mut t, big);
                p.comp = crate::refimpl::rgen::gzip_wrap(&f, &body, &p.data);
                if t.bool() {
                    p.ops.insert(first + 1, Op::IValidate { v: t.pick(&[0, 0, 1, 2]) });
                }
                if t.chance(100) {
                    p.ops.insert(first + 1, Op::IGetHeader { null: false });
                }
                for _ in 0..1 + t.below(3) {
                    let at = first + 1 + t.below(p.ops.len() - first);
                    p.ops.insert(at, Op::IInflate { in_len: t.pick(&[1usize, 2, 9, 10, 11, 16, 100, 1000, 70000]), out_len: t.pick(&[0usize, 1, 100, 5000, 70000]), flush: 0 });
                }
            }
        }
    }
    let p = p;
    let ok = ARENAS2.with(|ar| survives(|| {
        let _ = run_program::<Ng>(&p, ar);
    }));
    if !ok {
        o.class("dropped: zlib-ng crashed on this program");
        return o;
    }
    let ng = ARENAS2.with(|ar| run_program::<Ng>(&p, ar));
    let rs = ARENAS.with(|ar| run_program::<Rs>(&p, ar));
    if std::env::var("VERIF_DEBUG").is_ok() {
        for (k, op) in p.ops.iter().enumerate() {
            let (a, b) = (&rs.res[k], &ng.res[k]);
            eprintln!("{:2} {} | rs rc {} in {} out {} {} vals {:?} | ng rc {} in {} out {} {} vals {:?}", k, op_name(op), a.rc, a.din, a.dout, crate::json::hex_cut(&a.out, 24), a.vals, b.rc, b.din, b.dout, crate::json::hex_cut(&b.out, 24), b.vals);
        }
    }
    // Reference validity: zlib-ng is the specification only where it is itself consistent.
    //  * level 1 (deflate_quick): zlib-ng keeps its block_open flag across deflateReset(Keep), so the stream
    //    after such a reset lacks its first block header (an invalid stream); zlib-rs was repaired (C14).
    //  * after deflateReset zlib-ng's output can depend on stale window / hash-chain contents; zlib-rs equals
    //    a fresh stream (C14/C10).
    // A deflate slot is "tainted" from a deflateResetKeep at level 1 until its next init/reset; mismatches after
    // a deflateReset are re-judged against zlib-ng run with End+Init in place of that reset.
    let mut level = [0i32; 2];
    let mut tainted = [false; 2];
    let mut had_reset = [false; 2];
    let mut ng_fresh: Option<Exec> = None;
    let mut seen_unusual = false;
    let mut nontrivial = false;
    //  * gzip streams on which inflateValidate switched checking off and later on again: zlib-ng 2.3.3 only resets
    //    its folding-CRC state while checking is on, so the value it compares with the trailer afterwards comes from
    //    uninitialised memory (its verdict varies from run to run; stock zlib and zlib-rs accept the valid stream).
    //    From the re-enabling call until the next inflateInit2 (which also rewinds the shared input) the inflate slot is not compared.
    let (mut i_gz, mut val_off, mut i_taint, mut ever_i_taint) = (false, false, false, false);
    for (k, op) in p.ops.iter().enumerate() {
        let (a, mut b) = (&rs.res[k], &ng.res[k]);
        match op {
            Op::IInit { wbits } if a.rc == 0 => {
                i_gz = *wbits >= 16;
                val_off = false;
                i_taint = false;
            }
            Op::IReset2 { wbits } if a.rc == 0 => {
                // (a taint is NOT lifted here: while the slot was not compared the two libraries may have consumed
                // different amounts of the shared input, and only inflateInit2 rewinds the input position)
                i_gz = *wbits >= 16;
                val_off = false;
            }
            Op::IResetKeep if a.rc == 0 => {
                // inflateResetKeep (undocumented in the manual) keeps "the window" - but whether the previous stream's
                // output is IN the window depends on zlib-ng's lazy window allocation and its skip of the final window
                // update under Z_FINISH; zlib-rs always keeps the history. Not comparable until a real reset.
                i_taint = true;
                ever_i_taint = true;
            }
            Op::IValidate { v } if a.rc == 0 && i_gz => {
                if *v == 0 {
                    val_off = true;
                } else if val_off {
                    i_taint = true;
                    ever_i_taint = true;
                }
            }
            _ => {}
        }
        if i_taint && matches!(op, Op::IInflate { .. } | Op::ISync { .. } | Op::ISyncPoint | Op::IMark | Op::ICopyBack | Op::IGetDict { .. }) {
            o.class("not compared: inflate slot after inflateValidate off->on on a gzip stream or after inflateResetKeep (zlib-ng's state is unspecified)");
            continue;
        }
        let slot = match op {
            Op::DDeflate { which, .. } | Op::DParams { which, .. } | Op::DTune { which, .. } | Op::DPrime { which, .. } | Op::DPending { which, .. } | Op::DBound { which, .. } | Op::DSetDict { which, .. } | Op::DGetDict { which, .. } | Op::DSetHeader { which, .. } | Op::DReset { which } | Op::DResetKeep { which } | Op::DEnd { which } => Some(*which),
            Op::DInit { .. } => Some(0),
            Op::DCopy => Some(1),
            _ => None,
        };
        match op {
            Op::DInit { level: l, .. } => {
                level[0] = if *l == -1 { 6 } else { *l };
                tainted[0] = false;
                had_reset[0] = false;
            }
            Op::DParams { which, level: l, .. } if a.rc == 0 => level[*which] = if *l == -1 { 6 } else { *l },
            Op::DCopy if a.rc == 0 => {
                level[1] = level[0];
                tainted[1] = tainted[0];
                had_reset[1] = had_reset[0];
            }
            Op::DReset { which } if a.rc == 0 => {
                tainted[*which] = false;
                had_reset[*which] = true;
            }
            Op::DResetKeep { which } if a.rc == 0 => {
                if level[*which] == 1 {
                    tainted[*which] = true;
                }
            }
            _ => {}
        }
        if let Some(w) = slot {
            if tainted[w] && !matches!(op, Op::DInit { .. } | Op::DReset { .. }) {
                o.class("not compared: slot after deflateResetKeep at level 1 (zlib-ng keeps block_open)");
                continue;
            }
            if had_reset[w] && (a.rc != b.rc || a.din != b.din || a.dout != b.dout || a.out != b.out || a.vals != b.vals) {
                if ng_fresh.is_none() {
                    let mut p2 = Program { ops: p.ops.clone(), data: p.data.clone(), comp: p.comp.clone(), dict: p.dict.clone(), wild: p.wild, reset_as_reinit: true };
                    p2.reset_as_reinit = true;
                    ng_fresh = Some(ARENAS2.with(|ar| run_program::<Ng>(&p2, ar)));
                }
                let nf = ng_fresh.as_ref().unwrap();
                let c = &nf.res[k];
                if a.rc == c.rc && a.din == c.din && a.dout == c.dout && a.out == c.out && a.vals == c.vals {
                    o.class("zlib-ng after deflateReset differs from zlib-ng fresh; zlib-rs equals the fresh one");
                    continue;
                }
                b = &ng.res[k];
            }
        }
        if a.rc != b.rc || a.din != b.din || a.dout != b.dout || a.out != b.out || a.vals != b.vals {
            let what = if a.rc != b.rc {
                format!("status {} vs zlib-ng {}", a.rc, b.rc)
            } else if a.din != b.din || a.dout != b.dout {
                format!("data movement: consumed {} produced {} vs zlib-ng consumed {} produced {}", a.din, a.dout, b.din, b.dout)
            } else if a.out != b.out {
                let at = a.out.iter().zip(b.out.iter()).position(|(x, y)| x != y).unwrap_or(0);
                format!("output bytes differ at offset {}", at)
            } else {
                format!("values {:?} vs zlib-ng {:?}", a.vals, b.vals)
            };
            let opn = format!("{:?}", op);
            let fname = opn.split(|c: char| !c.is_alphanumeric()).next().unwrap_or("op").to_string();
            let kind = if a.rc != b.rc { "status" } else if a.vals != b.vals && a.din == b.din && a.dout == b.dout && a.out == b.out { "values" } else { "data" };
            let prefix: Vec<String> = p.ops[..k].iter().rev().take(6).rev().map(op_name).collect();
            o.fail(format!("{}/{}", fname, kind), format!("operation {} {}: {}; preceding operations: {}", k, op_name(op), what, prefix.join(" ; ")));
            return o;
        }
        if unusual(op) {
            seen_unusual = true;
        }
        if seen_unusual && moves(op, a) {
            nontrivial = true;
        }
        if a.rc == Z_STREAM_ERROR as i64 && matches!(op, Op::DInit { .. } | Op::IInit { .. } | Op::IReset2 { .. } | Op::DParams { .. } | Op::DTune { .. } | Op::IPrime { .. } | Op::DPrime { .. }) {
            o.class("out-of-range argument rejected by both");
            nontrivial = true;
        }
    }
    if rs.i_out != ng.i_out && !ever_i_taint {
        o.fail("final/outputs", "accumulated inflate outputs differ although every call matched".to_string());
        return o;
    }
    o.evals = p.ops.len() as u64;
    if nontrivial {
        let mut fp = Fp::new();
        fp.bytes(format!("{:?}", p.ops).as_bytes()).bytes(&p.data[..p.data.len().min(64)]).bytes(&p.comp[..p.comp.len().min(64)]);
        o.nontrivial = Some(fp.0);
        if ctx.want_sample {
            o.sample = Some(J::obj().set("ops", J::A(p.ops.iter().take(14).map(|x| J::s(op_name(x))).collect())).set("n_ops", J::U(p.ops.len() as u64)).set("data_len", J::U(p.data.len() as u64)).set("compressed_pool_len", J::U(p.comp.len() as u64)).set("statuses", J::A(rs.res.iter().take(14).map(|r| J::I(r.rc)).collect())));
        }
    }
    o
}

pub fn property() -> Property {
    Property { id: "C16", rule: RULE, phases: vec![Phase::Prop { name: "API programs in lock-step with zlib-ng", f: case, quick: 300_000, thorough: 5_000_000, max_tape: 420 }] }
}
