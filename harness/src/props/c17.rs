//! C17 — gz file layer: writes read back exactly; reads/seeks follow the logical stream.
#![allow(non_snake_case)]
use crate::api::*;
use crate::gen::*;
use crate::json::{hex_cut, J};
use crate::refimpl::rdec::{DecOpts, Verdict};
use crate::refimpl::rgen::{self, gen_gz_fields, Fault, GenOpts};
use crate::refimpl::rgzh::{decode_stream, Wrap};
use crate::runner::*;
use crate::tape::{Fp, Tape, Xs};
use core::ffi::{c_char, c_int, c_long, c_uint, c_void};
use std::ffi::CString;

pub const RULE: &str = "write side: tape -> open mode {w, a (pre-existing gzip content), level digit, strategy letter f/h/R/F, T = transparent} x gzbuffer size from the 8-byte minimum up to 70000 x sequence of {gzwrite, gzfwrite(size,nitems), gzputc, gzputs, gzflush(mode incl. Z_FINISH), gzsetparams, gzseek forward (SET/CUR), gztell, gzoffset} then gzclose; the file is then split by the reference parser into gzip members, each decoded by R-DEC, and the concatenation must equal the model's logical stream (transparent: file == bytes; append: old logical stream || new); every return value and gztell must equal the model. read side: tape -> file content {gzip member(s) from R-GEN / zlib-ng with header fields, multi-member, gzip + trailing garbage, plain, empty, truncated, corrupted} x gzbuffer size x sequence of {gzread, gzfread, gzgetc, gzungetc, gzgets, gzseek (SET/CUR, forward/backward), gzrewind, gztell, gzeof, gzdirect} then gzclose; data returned must equal L[p..p+n] of the logical stream computed by the reference decoder, gztell/gzgets/gzungetc/gzeof follow the model. The same operations run on zlib-ng's gz layer: a deviation from the model is a VIOLATION only if zlib-ng agrees with the model (zlib-rs == zlib-ng != model is counted as model disagreement; where the model has no opinion - truncated/corrupt files, push-back capacity, gzgets(len 1) - differences are counted, not alarmed). Non-trivial = total data > 2x the gzbuffer size with >= 1 operation crossing a buffer boundary; distinct by case fingerprint. Handles are opened with gzopen or with open(2) + gzdopen and closed with gzclose or gzclose_r / gzclose_w (selected by the last tape byte). Truncated gzip files are additionally read to exhaustion with one operation kind and must deliver every byte the truncated member still encodes (reference decoder's partial output, confirmed by zlib-ng).";

mod nggz {
    use super::*;
    extern "C" {
        pub fn gzopen(path: *const c_char, mode: *const c_char) -> *mut c_void;
        pub fn gzbuffer(f: *mut c_void, size: c_uint) -> c_int;
        pub fn gzread(f: *mut c_void, buf: *mut c_void, len: c_uint) -> c_int;
        pub fn gzfread(buf: *mut c_void, size: usize, nitems: usize, f: *mut c_void) -> usize;
        pub fn gzwrite(f: *mut c_void, buf: *const c_void, len: c_uint) -> c_int;
        pub fn gzfwrite(buf: *const c_void, size: usize, nitems: usize, f: *mut c_void) -> usize;
        pub fn gzputc(f: *mut c_void, c: c_int) -> c_int;
        pub fn gzputs(f: *mut c_void, s: *const c_char) -> c_int;
        pub fn gzgetc(f: *mut c_void) -> c_int;
        pub fn gzungetc(c: c_int, f: *mut c_void) -> c_int;
        pub fn gzgets(f: *mut c_void, buf: *mut c_char, len: c_int) -> *mut c_char;
        pub fn gzseek(f: *mut c_void, off: c_long, whence: c_int) -> c_long;
        pub fn gzrewind(f: *mut c_void) -> c_int;
        pub fn gztell(f: *mut c_void) -> c_long;
        pub fn gzoffset(f: *mut c_void) -> c_long;
        pub fn gzeof(f: *mut c_void) -> c_int;
        pub fn gzdirect(f: *mut c_void) -> c_int;
        pub fn gzflush(f: *mut c_void, flush: c_int) -> c_int;
        pub fn gzsetparams(f: *mut c_void, level: c_int, strategy: c_int) -> c_int;
        pub fn gzclose(f: *mut c_void) -> c_int;
        pub fn gzclearerr(f: *mut c_void);
        pub fn gzdopen(fd: c_int, mode: *const c_char) -> *mut c_void;
        pub fn gzclose_r(f: *mut c_void) -> c_int;
        pub fn gzclose_w(f: *mut c_void) -> c_int;
    }
}

pub trait Gz {
    const NAME: &'static str;
    unsafe fn open(path: *const c_char, mode: *const c_char) -> *mut c_void;
    unsafe fn buffer(f: *mut c_void, size: c_uint) -> c_int;
    unsafe fn read(f: *mut c_void, buf: *mut u8, len: c_uint) -> c_int;
    unsafe fn fread(buf: *mut u8, size: usize, n: usize, f: *mut c_void) -> usize;
    unsafe fn write(f: *mut c_void, buf: *const u8, len: c_uint) -> c_int;
    unsafe fn fwrite(buf: *const u8, size: usize, n: usize, f: *mut c_void) -> usize;
    unsafe fn putc(f: *mut c_void, c: c_int) -> c_int;
    unsafe fn puts(f: *mut c_void, s: *const c_char) -> c_int;
    unsafe fn getc(f: *mut c_void) -> c_int;
    unsafe fn ungetc(c: c_int, f: *mut c_void) -> c_int;
    unsafe fn gets(f: *mut c_void, buf: *mut c_char, len: c_int) -> *mut c_char;
    unsafe fn seek(f: *mut c_void, off: i64, whence: c_int) -> i64;
    unsafe fn rewind(f: *mut c_void) -> c_int;
    unsafe fn tell(f: *mut c_void) -> i64;
    unsafe fn offset(f: *mut c_void) -> i64;
    unsafe fn eof(f: *mut c_void) -> c_int;
    unsafe fn direct(f: *mut c_void) -> c_int;
    unsafe fn flush(f: *mut c_void, m: c_int) -> c_int;
    unsafe fn setparams(f: *mut c_void, l: c_int, s: c_int) -> c_int;
    unsafe fn close(f: *mut c_void) -> c_int;
    unsafe fn clearerr(f: *mut c_void);
}

pub struct RsGz;
pub struct NgGz;

thread_local! {
    /// alternative entry points for the same operations (bit 0: libc open + gzdopen instead of gzopen; bit 1:
    /// gzclose_r / gzclose_w instead of gzclose; bit 2: gzgetc_, gzseek, gztell, gzoffset instead of the 64-bit names)
    pub static ALT: std::cell::Cell<u8> = std::cell::Cell::new(0);
}

/// open(2) the way gzopen would for this mode string; None = let gzopen do it
fn os_open(path: *const c_char, mode: *const c_char) -> Option<c_int> {
    let m = unsafe { std::ffi::CStr::from_ptr(mode) }.to_bytes();
    if m.contains(&b'+') || m.contains(&b'x') {
        return None;
    }
    let flags = if m.contains(&b'r') {
        libc::O_RDONLY
    } else if m.contains(&b'w') {
        libc::O_WRONLY | libc::O_CREAT | libc::O_TRUNC
    } else if m.contains(&b'a') {
        libc::O_WRONLY | libc::O_CREAT | libc::O_APPEND
    } else {
        return None;
    };
    let fd = unsafe { libc::open(path, flags, 0o666) };
    if fd < 0 {
        None
    } else {
        Some(fd)
    }
}


impl Gz for RsGz {
    const NAME: &'static str = "zlib-rs";
    unsafe fn open(path: *const c_char, mode: *const c_char) -> *mut c_void {
        if ALT.with(|a| a.get()) & 1 != 0 {
            if let Some(fd) = os_open(path, mode) {
                let f = unsafe { libz_rs_sys::gzdopen(fd, mode) } as *mut c_void;
                if f.is_null() {
                    unsafe { libc::close(fd) };
                }
                return f;
            }
        }
        unsafe { libz_rs_sys::gzopen(path, mode) as *mut c_void }
    }
    unsafe fn buffer(f: *mut c_void, size: c_uint) -> c_int { unsafe { libz_rs_sys::gzbuffer(f as _, size) } }
    unsafe fn read(f: *mut c_void, buf: *mut u8, len: c_uint) -> c_int { unsafe { libz_rs_sys::gzread(f as _, buf as *mut c_void, len) } }
    unsafe fn fread(buf: *mut u8, size: usize, n: usize, f: *mut c_void) -> usize { unsafe { libz_rs_sys::gzfread(buf as *mut c_void, size, n, f as _) } }
    unsafe fn write(f: *mut c_void, buf: *const u8, len: c_uint) -> c_int { unsafe { libz_rs_sys::gzwrite(f as _, buf as *const c_void, len) } }
    unsafe fn fwrite(buf: *const u8, size: usize, n: usize, f: *mut c_void) -> usize { unsafe { libz_rs_sys::gzfwrite(buf as *const c_void, size, n, f as _) } }
    unsafe fn putc(f: *mut c_void, c: c_int) -> c_int { unsafe { libz_rs_sys::gzputc(f as _, c) } }
    unsafe fn puts(f: *mut c_void, s: *const c_char) -> c_int { unsafe { libz_rs_sys::gzputs(f as _, s) } }
    unsafe fn getc(f: *mut c_void) -> c_int { unsafe { libz_rs_sys::gzgetc(f as _) } }
    unsafe fn ungetc(c: c_int, f: *mut c_void) -> c_int { unsafe { libz_rs_sys::gzungetc(c, f as _) } }
    unsafe fn gets(f: *mut c_void, buf: *mut c_char, len: c_int) -> *mut c_char { unsafe { libz_rs_sys::gzgets(f as _, buf, len) } }
    unsafe fn seek(f: *mut c_void, off: i64, whence: c_int) -> i64 { unsafe { libz_rs_sys::gzseek64(f as _, off, whence) as i64 } }
    unsafe fn rewind(f: *mut c_void) -> c_int { unsafe { libz_rs_sys::gzrewind(f as _) } }
    unsafe fn tell(f: *mut c_void) -> i64 { unsafe { libz_rs_sys::gztell64(f as _) as i64 } }
    unsafe fn offset(f: *mut c_void) -> i64 { unsafe { libz_rs_sys::gzoffset64(f as _) as i64 } }
    unsafe fn eof(f: *mut c_void) -> c_int { unsafe { libz_rs_sys::gzeof(f as _) } }
    unsafe fn direct(f: *mut c_void) -> c_int { unsafe { libz_rs_sys::gzdirect(f as _) } }
    unsafe fn flush(f: *mut c_void, m: c_int) -> c_int { unsafe { libz_rs_sys::gzflush(f as _, m) } }
    unsafe fn setparams(f: *mut c_void, l: c_int, s: c_int) -> c_int { unsafe { libz_rs_sys::gzsetparams(f as _, l, s) } }
    unsafe fn close(f: *mut c_void) -> c_int {
        if ALT.with(|a| a.get()) & 2 != 0 {
            // the specialised closers refuse a handle of the other kind with Z_STREAM_ERROR and leave it alone
            let r = unsafe { libz_rs_sys::gzclose_r(f as _) };
            if r != Z_STREAM_ERROR {
                return r;
            }
            return unsafe { libz_rs_sys::gzclose_w(f as _) };
        }
        unsafe { libz_rs_sys::gzclose(f as _) }
    }
    unsafe fn clearerr(f: *mut c_void) { unsafe { libz_rs_sys::gzclearerr(f as _) } }
}

impl Gz for NgGz {
    const NAME: &'static str = "zlib-ng";
    unsafe fn open(path: *const c_char, mode: *const c_char) -> *mut c_void {
        if ALT.with(|a| a.get()) & 1 != 0 {
            if let Some(fd) = os_open(path, mode) {
                let f = unsafe { nggz::gzdopen(fd, mode) };
                if f.is_null() {
                    unsafe { libc::close(fd) };
                }
                return f;
            }
        }
        unsafe { nggz::gzopen(path, mode) }
    }
    unsafe fn buffer(f: *mut c_void, size: c_uint) -> c_int { unsafe { nggz::gzbuffer(f, size) } }
    unsafe fn read(f: *mut c_void, buf: *mut u8, len: c_uint) -> c_int { unsafe { nggz::gzread(f, buf as *mut c_void, len) } }
    unsafe fn fread(buf: *mut u8, size: usize, n: usize, f: *mut c_void) -> usize { unsafe { nggz::gzfread(buf as *mut c_void, size, n, f) } }
    unsafe fn write(f: *mut c_void, buf: *const u8, len: c_uint) -> c_int { unsafe { nggz::gzwrite(f, buf as *const c_void, len) } }
    unsafe fn fwrite(buf: *const u8, size: usize, n: usize, f: *mut c_void) -> usize { unsafe { nggz::gzfwrite(buf as *const c_void, size, n, f) } }
    unsafe fn putc(f: *mut c_void, c: c_int) -> c_int { unsafe { nggz::gzputc(f, c) } }
    unsafe fn puts(f: *mut c_void, s: *const c_char) -> c_int { unsafe { nggz::gzputs(f, s) } }
    unsafe fn getc(f: *mut c_void) -> c_int { unsafe { nggz::gzgetc(f) } }
    unsafe fn ungetc(c: c_int, f: *mut c_void) -> c_int { unsafe { nggz::gzungetc(c, f) } }
    unsafe fn gets(f: *mut c_void, buf: *mut c_char, len: c_int) -> *mut c_char { unsafe { nggz::gzgets(f, buf, len) } }
    unsafe fn seek(f: *mut c_void, off: i64, whence: c_int) -> i64 { unsafe { nggz::gzseek(f, off as c_long, whence) as i64 } }
    unsafe fn rewind(f: *mut c_void) -> c_int { unsafe { nggz::gzrewind(f) } }
    unsafe fn tell(f: *mut c_void) -> i64 { unsafe { nggz::gztell(f) as i64 } }
    unsafe fn offset(f: *mut c_void) -> i64 { unsafe { nggz::gzoffset(f) as i64 } }
    unsafe fn eof(f: *mut c_void) -> c_int { unsafe { nggz::gzeof(f) } }
    unsafe fn direct(f: *mut c_void) -> c_int { unsafe { nggz::gzdirect(f) } }
    unsafe fn flush(f: *mut c_void, m: c_int) -> c_int { unsafe { nggz::gzflush(f, m) } }
    unsafe fn setparams(f: *mut c_void, l: c_int, s: c_int) -> c_int { unsafe { nggz::gzsetparams(f, l, s) } }
    unsafe fn close(f: *mut c_void) -> c_int {
        if ALT.with(|a| a.get()) & 2 != 0 {
            let r = unsafe { nggz::gzclose_r(f) };
            if r != Z_STREAM_ERROR {
                return r;
            }
            return unsafe { nggz::gzclose_w(f) };
        }
        unsafe { nggz::gzclose(f) }
    }
    unsafe fn clearerr(f: *mut c_void) { unsafe { nggz::gzclearerr(f) } }
}

pub(crate) fn tmpdir() -> String {
    use std::sync::OnceLock;
    static D: OnceLock<String> = OnceLock::new();
    D.get_or_init(|| {
        let base = std::env::var("VERIF_TMP").unwrap_or_else(|_| std::env::temp_dir().to_string_lossy().into_owned());
        let d = format!("{}/vcheck-gz-{}", base, std::process::id());
        let _ = std::fs::create_dir_all(&d);
        d
    })
    .clone()
}

#[derive(Clone, Debug)]
pub(crate) enum WOp {
    Write(usize),
    FWrite(usize, usize),
    Putc(u8),
    Puts(usize),
    Flush(c_int),
    SetParams(c_int, c_int),
    Seek(i64, c_int),
    Tell,
    Offset,
}

#[derive(Clone, Debug, PartialEq)]
pub(crate) struct Res {
    pub ret: i64,
    pub data: Vec<u8>,
}

pub(crate) fn run_write<G: Gz>(path: &str, mode: &str, bufsize: Option<u32>, ops: &[WOp], pool: &[u8]) -> (Option<Vec<Res>>, c_int) {
    let cp = CString::new(path).unwrap();
    let cm = CString::new(mode).unwrap();
    let f = unsafe { G::open(cp.as_ptr(), cm.as_ptr()) };
    if f.is_null() {
        return (None, -100);
    }
    let mut res = Vec::new();
    if let Some(b) = bufsize {
        res.push(Res { ret: unsafe { G::buffer(f, b) } as i64, data: vec![] });
    }
    let mut cur = 0usize;
    let mut take = |n: usize| -> &[u8] {
        let n = n.min(pool.len());
        if cur + n > pool.len() {
            cur = 0;
        }
        let s = &pool[cur..cur + n];
        cur += n;
        s
    };
    for op in ops {
        let r = match op {
            WOp::Write(n) => {
                let s = take(*n);
                unsafe { G::write(f, s.as_ptr(), s.len() as c_uint) as i64 }
            }
            WOp::FWrite(size, items) => {
                let s = take(size * items);
                let items = if *size == 0 { *items } else { s.len() / size };
                unsafe { G::fwrite(s.as_ptr(), *size, items, f) as i64 }
            }
            WOp::Putc(c) => unsafe { G::putc(f, *c as c_int) as i64 },
            WOp::Puts(n) => {
                let s: Vec<u8> = take(*n).iter().map(|&b| if b == 0 { 1 } else { b }).collect();
                let cs = CString::new(s).unwrap();
                unsafe { G::puts(f, cs.as_ptr()) as i64 }
            }
            WOp::Flush(m) => unsafe { G::flush(f, *m) as i64 },
            WOp::SetParams(l, s) => unsafe { G::setparams(f, *l, *s) as i64 },
            WOp::Seek(off, wh) => unsafe { G::seek(f, *off, *wh) },
            WOp::Tell => unsafe { G::tell(f) },
            WOp::Offset => unsafe { G::offset(f) },
        };
        res.push(Res { ret: r, data: vec![] });
    }
    let rc = unsafe { G::close(f) };
    (Some(res), rc)
}

/// the write-side model: expected return values and the logical stream
fn model_write(transparent: bool, bufsize: Option<u32>, ops: &[WOp], pool: &[u8]) -> (Vec<Option<i64>>, Option<Vec<u8>>) {
    let mut exp = Vec::new();
    let mut l: Vec<u8> = Vec::new();
    let mut pending_zeros: usize = 0;
    let mut unsure = false;
    if bufsize.is_some() {
        exp.push(Some(0));
    }
    let mut cur = 0usize;
    let mut take = |n: usize| -> Vec<u8> {
        let n = n.min(pool.len());
        if cur + n > pool.len() {
            cur = 0;
        }
        let s = pool[cur..cur + n].to_vec();
        cur += n;
        s
    };
    let flushz = |l: &mut Vec<u8>, z: &mut usize| {
        l.extend(std::iter::repeat(0u8).take(*z));
        *z = 0;
    };
    for op in ops {
        if unsure {
            exp.push(None);
            continue;
        }
        match op {
            WOp::Write(n) => {
                let s = take(*n);
                if !s.is_empty() {
                    flushz(&mut l, &mut pending_zeros);
                }
                l.extend_from_slice(&s);
                exp.push(Some(s.len() as i64));
            }
            WOp::FWrite(size, items) => {
                let s = take(size * items);
                let it = if *size == 0 { 0 } else { s.len() / size };
                let bytes = it * size;
                if bytes > 0 {
                    flushz(&mut l, &mut pending_zeros);
                }
                l.extend_from_slice(&s[..bytes]);
                exp.push(Some(it as i64));
            }
            WOp::Putc(c) => {
                flushz(&mut l, &mut pending_zeros);
                l.push(*c);
                exp.push(Some(*c as i64));
            }
            WOp::Puts(n) => {
                let s: Vec<u8> = take(*n).iter().map(|&b| if b == 0 { 1 } else { b }).collect();
                if !s.is_empty() {
                    flushz(&mut l, &mut pending_zeros);
                }
                l.extend_from_slice(&s);
                exp.push(Some(s.len() as i64));
            }
            WOp::Flush(m) => {
                if (0..=4).contains(m) {
                    flushz(&mut l, &mut pending_zeros);
                    exp.push(Some(0));
                } else {
                    exp.push(Some(Z_STREAM_ERROR as i64));
                }
            }
            WOp::SetParams(lv, st) => {
                if transparent {
                    exp.push(Some(Z_STREAM_ERROR as i64));
                } else if (-1..=9).contains(lv) && (0..=4).contains(st) {
                    flushz(&mut l, &mut pending_zeros);
                    exp.push(Some(0));
                } else {
                    // invalid values: deflateParams fails and the file enters an error state
                    unsure = true;
                    exp.push(None);
                }
            }
            WOp::Seek(off, wh) => {
                let pos = (l.len() + pending_zeros) as i64;
                let target = match wh {
                    0 => *off,
                    1 => pos + *off,
                    _ => -1,
                };
                if (*wh > 1 || target < l.len() as i64) && pending_zeros > 0 {
                    // a refused seek while a forward seek is still pending: zlib drops the pending seek, zlib-ng
                    // keeps it; not specified
                    unsure = true;
                    exp.push(None);
                } else if *wh > 1 || target < l.len() as i64 {
                    exp.push(Some(-1));
                } else if target < pos {
                    // going back inside a forward seek that has not been carried out yet: zlib cancels part of the
                    // pending skip, zlib-ng refuses; the manual only says backward seeks are not supported
                    unsure = true;
                    exp.push(None);
                } else {
                    pending_zeros += (target - pos) as usize;
                    exp.push(Some(target));
                }
            }
            WOp::Tell => exp.push(Some((l.len() + pending_zeros) as i64)),
            WOp::Offset => exp.push(None),
        }
    }
    // gzclose performs a pending seek
    l.extend(std::iter::repeat(0u8).take(pending_zeros));
    (exp, if unsure { None } else { Some(l) })
}

/// split a file into gzip members and decode them (the logical stream a reader must see)
fn logical_of_gzip_file(file: &[u8]) -> Result<Vec<u8>, String> {
    let mut out = Vec::new();
    let mut pos = 0;
    let mut members = 0;
    while pos < file.len() {
        let r = decode_stream(&file[pos..], Wrap::Gzip, 15, &DecOpts::strict(32768));
        match r.verdict {
            Verdict::Valid => {
                out.extend_from_slice(&r.out);
                pos += r.consumed;
                members += 1;
            }
            v => return Err(format!("member {} at offset {}: {:?}", members, pos, v)),
        }
    }
    Ok(out)
}

fn gen_pool(t: &mut Tape) -> Vec<u8> {
    let n = t.pick(&[64usize, 1000, 20_000, 150_000]);
    let mut d = gen_data(t, 15, n);
    if d.len() < 64 {
        let mut x = Xs::new(t.u16() as u64);
        while d.len() < 64 {
            d.push((x.next() >> 32) as u8);
        }
    }
    d
}

fn write_case(t: &mut Tape, ctx: &Ctx, o: &mut Outcome) {
    let pool = gen_pool(t);
    let append = t.chance(50);
    let transparent = !append && t.chance(30);
    let mut mode = String::from(if append { "a" } else { "w" });
    if t.bool() {
        mode.push('b');
    }
    if t.chance(150) {
        mode.push((b'0' + t.below(10) as u8) as char);
    }
    if t.chance(80) {
        mode.push(t.pick(&['f', 'h', 'R', 'F']));
    }
    if transparent {
        mode.push('T');
    }
    let bufsize = if t.chance(200) { Some(t.pick(&[8u32, 8, 9, 16, 31, 64, 100, 512, 1000, 4096, 8192, 70000])) } else { None };
    let sizes = [0usize, 1, 2, 7, 8, 9, 15, 16, 17, 100, 511, 512, 1000, 4096, 8192, 8193, 20000, 70000];
    let nops = 1 + t.below(14);
    let mut ops = Vec::new();
    for _ in 0..nops {
        ops.push(match t.below(16) {
            0..=5 => WOp::Write(t.pick(&sizes)),
            6 => WOp::FWrite(t.pick(&[0usize, 1, 2, 3, 7, 100]), t.pick(&[0usize, 1, 2, 10, 100, 1000])),
            7 | 8 => WOp::Putc(t.u8()),
            9 => WOp::Puts(t.pick(&[0usize, 1, 5, 100, 5000])),
            10 => WOp::Flush(t.pick(&[0, 1, 2, 3, 4, 2, 3, 5, -1])),
            11 => WOp::SetParams(t.pick(&[-1, 0, 1, 6, 9, 10]), t.pick(&[0, 1, 2, 3, 4, 5])),
            12 | 13 => WOp::Seek(t.pick(&[0i64, 1, 7, 100, 5000, 70000, -1, -100]), t.pick(&[0, 1, 1, 1, 2])),
            14 => WOp::Tell,
            _ => WOp::Offset,
        });
    }
    // pre-existing content for append mode: a valid gzip member written by zlib-ng
    let pre_logical: Vec<u8> = if append { gen_data(t, 15, 3000) } else { vec![] };
    let dir = tmpdir();
    let paths = [format!("{}/w-rs.gz", dir), format!("{}/w-ng.gz", dir)];
    for p in &paths {
        let _ = std::fs::remove_file(p);
        if append {
            let cfg = DefCfg { level: 6, strategy: 0, wrap: Wrap::Gzip, wbits: 15, mem_level: 8 };
            let c = deflate_oneshot::<Ng>(&cfg, &pre_logical, None).unwrap_or_default();
            let _ = std::fs::write(p, &c);
        }
    }
    crate::POISON.store(0xA7, std::sync::atomic::Ordering::Relaxed);
    let (rs, rs_close) = run_write::<RsGz>(&paths[0], &mode, bufsize, &ops, &pool);
    crate::POISON.store(0, std::sync::atomic::Ordering::Relaxed);
    let (ng, ng_close) = run_write::<NgGz>(&paths[1], &mode, bufsize, &ops, &pool);
    let (exp, logical) = model_write(transparent, bufsize, &ops, &pool);
    let (rs, ng) = match (rs, ng) {
        (Some(a), Some(b)) => (a, b),
        (None, None) => return,
        (a, b) => {
            o.fail("gzopen/null-mismatch", format!("gzopen(mode {:?}): zlib-rs {} zlib-ng {}", mode, if a.is_some() { "opened" } else { "NULL" }, if b.is_some() { "opened" } else { "NULL" }));
            return;
        }
    };
    let desc = format!("mode {:?} gzbuffer {:?} ops {:?}", mode, bufsize, &ops[..ops.len().min(14)]);
    for k in 0..exp.len() {
        let opd = if bufsize.is_some() { if k == 0 { "gzbuffer".to_string() } else { format!("{:?}", ops[k - 1]) } } else { format!("{:?}", ops[k]) };
        match exp[k] {
            Some(e) => {
                if rs[k].ret != e {
                    if std::env::var("VERIF_DEBUG").is_ok() && ng[k].ret != e {
                        eprintln!("MODEL-DISAGREE write op {} {}: rs {} ng {} model {} ; {}", k, opd, rs[k].ret, ng[k].ret, e, desc);
                    }
                    if ng[k].ret == e {
                        o.fail(format!("write/{}-return", opd.split('(').next().unwrap_or("op")), format!("operation {} {}: zlib-rs returned {}, model and zlib-ng say {}; {}", k, opd, rs[k].ret, e, desc));
                        return;
                    }
                    o.class("model disagreement (zlib-ng also differs from the model)");
                }
            }
            None => {
                if rs[k].ret != ng[k].ret {
                    o.class("unarbitrated difference (model has no opinion)");
                }
            }
        }
    }
    // file content
    let file = std::fs::read(&paths[0]).unwrap_or_default();
    let ngfile = std::fs::read(&paths[1]).unwrap_or_default();
    let logical = match logical {
        Some(l) => l,
        None => {
            o.class("write: model has no opinion after a seek back into a pending forward seek");
            return;
        }
    };
    let mut expected = pre_logical.clone();
    expected.extend_from_slice(&logical);
    let rs_logical: Result<Vec<u8>, String> = if transparent { Ok(file.clone()) } else { logical_of_gzip_file(&file) };
    let ng_logical: Result<Vec<u8>, String> = if transparent { Ok(ngfile.clone()) } else { logical_of_gzip_file(&ngfile) };
    let ng_ok = ng_logical.as_ref().map_or(false, |l| *l == expected);
    match rs_logical {
        Ok(l) if l == expected => {}
        Ok(l) => {
            if ng_ok {
                let at = l.iter().zip(expected.iter()).position(|(a, b)| a != b).unwrap_or(l.len().min(expected.len()));
                o.fail("write/file-content", format!("the file decodes to {} bytes, the logical stream written is {} bytes (first difference at {}); {}", l.len(), expected.len(), at, desc));
                return;
            }
            o.class("model disagreement (zlib-ng also differs from the model)");
        }
        Err(e) => {
            if ng_ok {
                o.fail("write/file-not-gzip", format!("the file written is not a valid sequence of gzip members: {}; {}", e, desc));
                return;
            }
            o.class("model disagreement (zlib-ng also differs from the model)");
        }
    }
    if rs_close != 0 && ng_close == 0 {
        o.fail("write/gzclose-return", format!("gzclose returned {} (zlib-ng 0); {}", rs_close, desc));
        return;
    }
    o.class("write side");
    if append {
        o.class("append mode");
    }
    if transparent {
        o.class("transparent mode");
    }
    let bs = bufsize.unwrap_or(8192) as usize;
    let crossing = ops.iter().any(|op| matches!(op, WOp::Write(n) if *n > bs / 2) || matches!(op, WOp::Seek(..)));
    if expected.len() > 2 * bs && crossing {
        let mut fp = Fp::new();
        fp.bytes(desc.as_bytes()).bytes(&pool[..pool.len().min(64)]);
        o.nontrivial = Some(fp.0);
        if ctx.want_sample {
            o.sample = Some(J::obj().set("side", J::s("write")).set("mode", J::s(mode.clone())).set("gzbuffer", J::I(bufsize.map_or(-1, |b| b as i64))).set("ops", J::s(format!("{:?}", &ops[..ops.len().min(12)]))).set("logical_len", J::U(expected.len() as u64)).set("file_len", J::U(file.len() as u64)));
        }
    }
}

#[derive(Clone, Debug)]
pub(crate) enum ROp {
    Read(usize),
    FRead(usize, usize),
    Getc,
    Ungetc(c_int),
    Gets(c_int),
    Seek(i64, c_int),
    Rewind,
    Tell,
    Eof,
    Direct,
}

pub(crate) fn run_read<G: Gz>(path: &str, bufsize: Option<u32>, ops: &[ROp]) -> Option<(Vec<Res>, c_int)> {
    let cp = CString::new(path).unwrap();
    let cm = CString::new("rb").unwrap();
    let f = unsafe { G::open(cp.as_ptr(), cm.as_ptr()) };
    if f.is_null() {
        return None;
    }
    let mut res = Vec::new();
    if let Some(b) = bufsize {
        res.push(Res { ret: unsafe { G::buffer(f, b) } as i64, data: vec![] });
    }
    let mut buf = vec![0u8; 200_000];
    for op in ops {
        let r = match op {
            ROp::Read(n) => {
                let r = unsafe { G::read(f, buf.as_mut_ptr(), *n as c_uint) };
                Res { ret: r as i64, data: if r > 0 { buf[..r as usize].to_vec() } else { vec![] } }
            }
            ROp::FRead(size, items) => {
                let r = unsafe { G::fread(buf.as_mut_ptr(), *size, *items, f) };
                Res { ret: r as i64, data: buf[..(r * size).min(buf.len())].to_vec() }
            }
            ROp::Getc => Res { ret: unsafe { G::getc(f) } as i64, data: vec![] },
            ROp::Ungetc(c) => Res { ret: unsafe { G::ungetc(*c, f) } as i64, data: vec![] },
            ROp::Gets(len) => {
                for b in buf[..(*len).max(1) as usize + 1].iter_mut() {
                    *b = 0xEE;
                }
                let p = unsafe { G::gets(f, buf.as_mut_ptr() as *mut c_char, *len) };
                if p.is_null() {
                    Res { ret: 0, data: vec![] }
                } else {
                    let n = buf.iter().position(|&b| b == 0).unwrap_or(0);
                    Res { ret: 1, data: buf[..n].to_vec() }
                }
            }
            ROp::Seek(off, wh) => Res { ret: unsafe { G::seek(f, *off, *wh) }, data: vec![] },
            ROp::Rewind => Res { ret: unsafe { G::rewind(f) } as i64, data: vec![] },
            ROp::Tell => Res { ret: unsafe { G::tell(f) }, data: vec![] },
            ROp::Eof => Res { ret: unsafe { G::eof(f) } as i64, data: vec![] },
            ROp::Direct => Res { ret: unsafe { G::direct(f) } as i64, data: vec![] },
        };
        res.push(r);
    }
    let rc = unsafe { G::close(f) };
    Some((res, rc))
}

/// read-side model over a known logical stream. None = no opinion.
fn model_read(l: &[u8], direct: bool, bufsize: Option<u32>, ops: &[ROp]) -> Vec<Option<Res>> {
    let mut exp: Vec<Option<Res>> = Vec::new();
    if bufsize.is_some() {
        exp.push(Some(Res { ret: 0, data: vec![] }));
    }
    let mut p: usize = 0; // position in l of the next byte after the push-back stack
    let mut pb: Vec<u8> = Vec::new(); // push-back (last pushed first out)
    let mut seek_to: Option<i64> = None; // pending seek target beyond what we model eagerly
    let mut eof = false;
    let mut fwd_pending = false; // a forward seek may still be pending inside the library (lazy skip)
    let mut eof_known = true; // plain files: whether a seek clears the end-of-file indicator depends on internal state
    let mut unsure = false; // after something the model does not define (push-back capacity, ...)
    for op in ops {
        if unsure {
            exp.push(None);
            continue;
        }
        // a pending seek is resolved by the next data operation (clamped at the end of the stream)
        if matches!(op, ROp::Read(n) if *n > 0) || matches!(op, ROp::Getc | ROp::Rewind) {
            eof_known = true;
        }
        if matches!(op, ROp::Read(n) if *n > 0) || matches!(op, ROp::Getc | ROp::Rewind | ROp::Gets(_) | ROp::FRead(..) | ROp::Ungetc(_)) {
            fwd_pending = false;
        }
        let resolve = |p: &mut usize, seek_to: &mut Option<i64>| {
            if let Some(t) = seek_to.take() {
                *p = (t.max(0) as usize).min(l.len());
            }
        };
        match op {
            ROp::Read(0) => {
                exp.push(Some(Res { ret: 0, data: vec![] }));
            }
            ROp::Read(n) => {
                resolve(&mut p, &mut seek_to);
                let mut d = Vec::new();
                while d.len() < *n && !pb.is_empty() {
                    d.push(pb.pop().unwrap());
                }
                let take = (*n - d.len()).min(l.len() - p);
                d.extend_from_slice(&l[p..p + take]);
                p += take;
                if d.len() < *n {
                    eof = true;
                }
                exp.push(Some(Res { ret: d.len() as i64, data: d }));
            }
            ROp::FRead(size, items) => {
                if *size == 0 || *items == 0 {
                    exp.push(Some(Res { ret: 0, data: vec![] }));
                    continue;
                }
                resolve(&mut p, &mut seek_to);
                let want = size * items;
                let mut d = Vec::new();
                while d.len() < want && !pb.is_empty() {
                    d.push(pb.pop().unwrap());
                }
                let take = (want - d.len()).min(l.len() - p);
                d.extend_from_slice(&l[p..p + take]);
                p += take;
                if d.len() < want {
                    eof = true;
                }
                let full = d.len() / size;
                d.truncate(full * size);
                exp.push(Some(Res { ret: full as i64, data: d }));
            }
            ROp::Getc => {
                resolve(&mut p, &mut seek_to);
                if let Some(c) = pb.pop() {
                    exp.push(Some(Res { ret: c as i64, data: vec![] }));
                } else if p < l.len() {
                    p += 1;
                    exp.push(Some(Res { ret: l[p - 1] as i64, data: vec![] }));
                } else {
                    eof = true;
                    exp.push(Some(Res { ret: -1, data: vec![] }));
                }
            }
            ROp::Ungetc(c) => {
                if *c < 0 {
                    exp.push(Some(Res { ret: -1, data: vec![] }));
                    continue;
                }
                resolve(&mut p, &mut seek_to);
                // one character of push-back is guaranteed; more depends on internal buffer state
                if pb.is_empty() && p >= 1 {
                    pb.push(*c as u8);
                    eof = false;
                    exp.push(Some(Res { ret: *c as i64, data: vec![] }));
                } else {
                    unsure = true;
                    exp.push(None);
                }
            }
            ROp::Gets(len) => {
                if *len < 2 {
                    // len < 1: NULL; len == 1: zlib returns NULL at... the manual is silent
                    exp.push(None);
                    if *len == 1 {
                        continue;
                    }
                    continue;
                }
                resolve(&mut p, &mut seek_to);
                let mut d = Vec::new();
                let max = (*len - 1) as usize;
                while d.len() < max {
                    let c = if let Some(c) = pb.pop() {
                        c
                    } else if p < l.len() {
                        p += 1;
                        l[p - 1]
                    } else {
                        eof = true;
                        break;
                    };
                    d.push(c);
                    if c == b'\n' {
                        break;
                    }
                }
                if d.is_empty() {
                    exp.push(Some(Res { ret: 0, data: vec![] }));
                } else {
                    // the C string ends at the first NUL of the data
                    let n = d.iter().position(|&b| b == 0).unwrap_or(d.len());
                    d.truncate(n);
                    exp.push(Some(Res { ret: 1, data: d }));
                }
            }
            ROp::Seek(off, wh) => {
                if seek_to.is_some() && *wh == 1 {
                    unsure = true;
                    exp.push(None);
                    continue;
                }
                let cur = p as i64 - pb.len() as i64;
                let target = match wh {
                    0 => *off,
                    1 => cur + *off,
                    _ => {
                        exp.push(Some(Res { ret: -1, data: vec![] }));
                        continue;
                    }
                };
                if target < 0 {
                    if fwd_pending || seek_to.is_some() {
                        // a refused seek drops a forward seek that is still pending; how much of the earlier
                        // forward seek was already carried out depends on the buffered output
                        unsure = true;
                        exp.push(None);
                    } else {
                        exp.push(Some(Res { ret: -1, data: vec![] }));
                    }
                    continue;
                }
                seek_to = None;
                if direct {
                    eof_known = false;
                }
                if target < cur {
                    eof = false; // backward: gzrewind clears the indicator; a forward seek leaves it alone
                }
                if target > cur || (target < cur && target > 0) {
                    // forward: lazy skip; backward: rewind followed by a lazy skip to the target
                    fwd_pending = true;
                }
                if direct && target as usize <= l.len() {
                    // plain files are repositioned with lseek: buffered output incl. push-back is dropped
                    pb.clear();
                    p = target as usize;
                } else if target >= cur {
                    // forward: pushed-back characters are part of the buffered output and are skipped first
                    let mut d = (target - cur) as usize;
                    while d > 0 && !pb.is_empty() {
                        pb.pop();
                        d -= 1;
                    }
                    if p + d <= l.len() {
                        p += d;
                    } else if direct {
                        // plain files: whether the position is clamped depends on internal state (lseek shortcut)
                        unsure = true;
                        exp.push(None);
                        continue;
                    } else {
                        seek_to = Some(target);
                    }
                } else {
                    // backward: rewind and skip; push-back is discarded
                    pb.clear();
                    p = target as usize;
                }
                exp.push(Some(Res { ret: target, data: vec![] }));
            }
            ROp::Rewind => {
                eof_known = true;
                p = 0;
                pb.clear();
                seek_to = None;
                eof = false;
                exp.push(Some(Res { ret: 0, data: vec![] }));
            }
            ROp::Tell => {
                if seek_to.is_some() {
                    // a seek beyond the end is pending: the position is the target until some call processes
                    // the skip (then it is the end of the stream); which calls do so is not specified
                    exp.push(None);
                } else {
                    exp.push(Some(Res { ret: p as i64 - pb.len() as i64, data: vec![] }));
                }
            }
            ROp::Eof => {
                if seek_to.is_some() || !eof_known {
                    exp.push(None);
                } else {
                    exp.push(Some(Res { ret: eof as i64, data: vec![] }));
                }
            }
            ROp::Direct => {
                if fwd_pending || seek_to.is_some() {
                    // gzdirect may fill the buffer while a seek is still pending; gzgetc's fast path then serves
                    // buffered bytes without carrying out the seek (zlib and zlib-ng alike): no opinion from here
                    unsure = true;
                }
                exp.push(Some(Res { ret: direct as i64, data: vec![] }));
            }
        }
    }
    exp
}

fn read_case(t: &mut Tape, ctx: &Ctx, o: &mut Outcome) {
    // ---- file content -----------------------------------------------------------------------
    let class = t.below(12);
    let mut file: Vec<u8> = Vec::new();
    let mut logical: Option<Vec<u8>> = Some(Vec::new());
    let mut direct = false;
    let mut full_logical: Option<Vec<u8>> = None;
    let cname;
    let member = |t: &mut Tape| -> (Vec<u8>, Vec<u8>) {
        if t.bool() {
            let go = GenOpts { max_dist: 32768, max_out: t.pick(&[10usize, 500, 9000, 70_000]), dict: &[], fault: Fault::None, max_blocks: 4 };
            let g = rgen::gen_raw(t, &go);
            let f = gen_gz_fields(t, false);
            (rgen::gzip_wrap(&f, &g.bytes, &g.out), g.out)
        } else {
            let n = t.pick(&[0usize, 5, 600, 9000, 70_000]);
            let d = gen_data(t, 15, n);
            let cfg = DefCfg { level: t.pick(&[0, 1, 6, 9]), strategy: 0, wrap: Wrap::Gzip, wbits: 15, mem_level: 8 };
            (deflate_oneshot::<Ng>(&cfg, &d, None).unwrap_or_default(), d)
        }
    };
    match class {
        0..=3 => {
            cname = "single gzip member";
            let (m, d) = member(t);
            file = m;
            logical = Some(d);
        }
        4 | 5 => {
            cname = "multi-member gzip";
            let k = 2 + t.below(3);
            let mut l = Vec::new();
            for _ in 0..k {
                let (m, d) = member(t);
                file.extend_from_slice(&m);
                l.extend_from_slice(&d);
            }
            logical = Some(l);
        }
        6 => {
            cname = "gzip + trailing garbage";
            let (m, d) = member(t);
            file = m;
            let n = 1 + t.below(40);
            let mut g = t.bytes(n);
            if g[0] == 0x1f {
                g[0] = 0x20;
            }
            file.extend_from_slice(&g);
            logical = Some(d);
        }
        7 | 8 => {
            cname = "plain (not gzip)";
            let n = t.pick(&[1usize, 2, 10, 700, 9000, 70_000]);
            let mut d = gen_data(t, 15, n);
            if d.is_empty() {
                d.push(b'x');
            }
            if d[0] == 0x1f {
                d[0] = b'p';
            }
            file = d.clone();
            logical = Some(d);
            direct = true;
        }
        9 => {
            cname = "empty file";
            logical = Some(vec![]);
            direct = true;
        }
        10 => {
            cname = "truncated gzip (model has no opinion)";
            let (m, d) = member(t);
            let cut = if m.is_empty() { 0 } else { t.below(m.len()) };
            file = m[..cut].to_vec();
            logical = None;
            full_logical = Some(d);
        }
        _ => {
            cname = "corrupted gzip (model has no opinion)";
            let (m, _) = member(t);
            file = m;
            let other = t.bytes(4);
            rgen::mutate(t, &mut file, &other);
            logical = None;
        }
    }
    let bufsize = if t.chance(200) { Some(t.pick(&[8u32, 8, 9, 16, 31, 64, 100, 512, 1000, 4096, 8192, 70000])) } else { None };
    let sizes = [0usize, 1, 2, 7, 8, 9, 15, 16, 17, 100, 511, 512, 1000, 4096, 8192, 8193, 16384, 20000, 70000];
    let llen = logical.as_ref().map_or(1000, |l| l.len()) as i64;
    let nops = 1 + t.below(16);
    let mut ops = Vec::new();
    for _ in 0..nops {
        ops.push(match t.below(20) {
            0..=5 => ROp::Read(t.pick(&sizes)),
            6 => ROp::FRead(t.pick(&[0usize, 1, 2, 3, 7, 100]), t.pick(&[0usize, 1, 2, 10, 100, 1000])),
            7 | 8 => ROp::Getc,
            9 | 10 => ROp::Ungetc(t.pick(&[b'a' as c_int, 0, 255, 10, -1, 300])),
            11 | 12 => ROp::Gets(t.pick(&[2 as c_int, 3, 10, 80, 1000, 20000, 1, 0, -1])),
            13 | 14 => {
                let wh = t.pick(&[0, 0, 1, 1, 2]);
                let off = match t.below(6) {
                    0 => 0,
                    1 => t.below(llen as usize + 2) as i64,
                    2 => -(t.below(llen as usize + 2) as i64),
                    3 => llen,
                    4 => llen + 1 + t.below(100) as i64,
                    _ => t.pick(&[1i64, -1, 7, -7, 100, -100, 8192, -8192]),
                };
                ROp::Seek(off, wh)
            }
            15 => ROp::Rewind,
            16 | 17 => ROp::Tell,
            18 => ROp::Eof,
            _ => ROp::Direct,
        });
    }
    let dir = tmpdir();
    let path = format!("{}/r.gz", dir);
    let _ = std::fs::write(&path, &file);
    crate::POISON.store(0xA7, std::sync::atomic::Ordering::Relaxed);
    let rs = run_read::<RsGz>(&path, bufsize, &ops);
    crate::POISON.store(0, std::sync::atomic::Ordering::Relaxed);
    let ng = run_read::<NgGz>(&path, bufsize, &ops);
    let ((rs, rs_close), (ng, ng_close)) = match (rs, ng) {
        (Some(a), Some(b)) => (a, b),
        _ => return,
    };
    let desc = format!("{} ({} bytes) gzbuffer {:?} ops {:?}", cname, file.len(), bufsize, &ops[..ops.len().min(16)]);
    let exp: Vec<Option<Res>> = match &logical {
        Some(l) => model_read(l, direct, bufsize, &ops),
        None => vec![None; rs.len()],
    };
    for k in 0..rs.len() {
        let opd = if bufsize.is_some() { if k == 0 { "gzbuffer".to_string() } else { format!("{:?}", ops[k - 1]) } } else { format!("{:?}", ops[k]) };
        match &exp[k] {
            Some(e) => {
                if rs[k] != *e {
                    if ng[k] == *e {
                        let what = if rs[k].ret != e.ret { format!("returned {} (model and zlib-ng: {})", rs[k].ret, e.ret) } else { format!("returned data that differs from the logical stream at offset {}", rs[k].data.iter().zip(e.data.iter()).position(|(a, b)| a != b).unwrap_or(0)) };
                        o.fail(format!("read/{}", opd.split(|c| c == '(' || c == ' ').next().unwrap_or("op")), format!("operation {} {}: zlib-rs {}; {}", k, opd, what, desc));
                        return;
                    }
                    o.class("model disagreement (zlib-ng also differs from the model)");
                    if std::env::var("VERIF_DEBUG").is_ok() {
                        eprintln!("MODEL-DISAGREE read op {} {}: rs ret {} len {} | ng ret {} len {} | model ret {} len {} ; {}", k, opd, rs[k].ret, rs[k].data.len(), ng[k].ret, ng[k].data.len(), e.ret, e.data.len(), desc);
                    }
                    break;
                }
            }
            None => {
                if rs[k] != ng[k] && opd == "Gets(1)" {
                    // zlib/zlib-ng return NULL, zlib-rs an empty string; the manual is silent; nothing is consumed
                    o.class("gzgets(len 1): NULL vs empty string (not compared)");
                    continue;
                }
                if rs[k] != ng[k] {
                    o.class("unarbitrated difference (model has no opinion)");
                    if std::env::var("VERIF_DEBUG").is_ok() {
                        eprintln!("UNARBITRATED read op {} {}: rs ret {} len {} | ng ret {} len {} ; {}", k, opd, rs[k].ret, rs[k].data.len(), ng[k].ret, ng[k].data.len(), desc);
                    }
                    break;
                }
            }
        }
    }
    // truncated files: whatever sequential reads deliver (before any repositioning) must be a prefix of what the
    // complete member encodes - never invented or reordered bytes
    if let (Some(full), true) = (&full_logical, file.len() >= 2) {
        let mut seq: Vec<u8> = Vec::new();
        let base = if bufsize.is_some() { 1 } else { 0 };
        for (k, op) in ops.iter().enumerate() {
            match op {
                ROp::Read(_) | ROp::FRead(..) => seq.extend_from_slice(&rs[base + k].data),
                ROp::Getc => {
                    if rs[base + k].ret >= 0 {
                        seq.push(rs[base + k].ret as u8)
                    }
                }
                ROp::Tell | ROp::Eof | ROp::Direct => {}
                _ => break,
            }
        }
        if !(seq.len() <= full.len() && full[..seq.len()] == seq[..]) {
            o.fail("read/truncated-file-data", format!("sequential reads of a truncated gzip file returned {} bytes that are not a prefix of what the complete member encodes ({} bytes); {}", seq.len(), full.len(), desc));
            return;
        }
    }
    // truncated files, completeness: reading sequentially until nothing more comes must deliver every byte the
    // truncated member still encodes (reference decoder's partial output); zlib-ng is run alongside and a shortfall
    // counts only if zlib-ng delivers exactly that partial output
    if let (Some(_full), true) = (&full_logical, file.len() >= 2) {
        let partial = crate::refimpl::rgzh::decode_stream(&file, crate::refimpl::rgzh::Wrap::Gzip, 15, &crate::refimpl::rdec::DecOpts::lenient()).out;
        let h = crate::tape::fnv64(&file);
        let n = [1usize, 7, 100, 5000][(h as usize >> 8) % 4];
        let kind = if partial.contains(&0) { h % 3 } else { h % 4 };
        let op = match kind {
            0 => ROp::Read(n),
            1 => ROp::FRead(1, n),
            2 => ROp::Getc,
            _ => ROp::Gets(n as c_int + 2),
        };
        let per = match op {
            ROp::Getc => 1,
            _ => n,
        };
        let count = (partial.len() / per + 12).min(12_000);
        let ops2: Vec<ROp> = (0..count).map(|_| op.clone()).collect();
        let collect = |r: &Option<(Vec<Res>, c_int)>| -> Option<Vec<u8>> {
            let (v, _) = r.as_ref()?;
            let mut seq = Vec::new();
            for x in v {
                match op {
                    ROp::Getc => {
                        if x.ret >= 0 {
                            seq.push(x.ret as u8)
                        }
                    }
                    _ => seq.extend_from_slice(&x.data),
                }
            }
            Some(seq)
        };
        if partial.len() <= count * per {
            crate::POISON.store(0xA7, std::sync::atomic::Ordering::Relaxed);
            let rs2 = run_read::<RsGz>(&path, None, &ops2);
            crate::POISON.store(0, std::sync::atomic::Ordering::Relaxed);
            let ng2 = run_read::<NgGz>(&path, None, &ops2);
            if let (Some(a), Some(b)) = (collect(&rs2), collect(&ng2)) {
                if a != b && b == partial {
                    o.fail("read/truncated-file-incomplete", format!("reading a truncated gzip file to exhaustion with {:?} x {} delivers {} bytes; the truncated member encodes {} bytes and zlib-ng delivers all of them; {}", op, count, a.len(), partial.len(), desc));
                    return;
                }
                o.class(if a == partial { "truncated file read to exhaustion: complete" } else { "truncated file read to exhaustion: reference decoder / zlib-ng disagree (not judged)" });
            }
        }
    }
    if logical.is_some() && rs_close != ng_close && ng_close == 0 {
        o.fail("read/gzclose-return", format!("gzclose returned {} (zlib-ng 0); {}", rs_close, desc));
        return;
    }
    o.class(cname);
    o.class("read side");
    if ops.iter().any(|op| matches!(op, ROp::Seek(off, _) if *off < 0)) {
        o.class("backward seek");
    }
    let bs = bufsize.unwrap_or(8192) as usize;
    let crossing = ops.iter().any(|op| matches!(op, ROp::Read(n) if *n > bs / 2) || matches!(op, ROp::Seek(..) | ROp::Gets(_)));
    if ops.iter().any(|op| matches!(op, ROp::Read(n) if *n >= 2 * bs)) {
        o.class("direct-to-user read (n >= 2 x buffer)");
    }
    if logical.as_ref().map_or(false, |l| l.len() > 2 * bs) && crossing {
        let mut fp = Fp::new();
        fp.bytes(desc.as_bytes()).bytes(&file[..file.len().min(64)]);
        o.nontrivial = Some(fp.0);
        if ctx.want_sample {
            o.sample = Some(J::obj().set("side", J::s("read")).set("file_class", J::s(cname)).set("file_len", J::U(file.len() as u64)).set("file_head", J::s(hex_cut(&file, 16))).set("logical_len", J::I(logical.as_ref().map_or(-1, |l| l.len() as i64))).set("gzbuffer", J::I(bufsize.map_or(-1, |b| b as i64))).set("ops", J::s(format!("{:?}", &ops[..ops.len().min(12)]))));
        }
    }
}

pub fn case(tape: &[u8], ctx: &Ctx) -> Outcome {
    let mut o = Outcome::new();
    let mut t = Tape::new(tape);
    {
        // glibc fills every malloc'ed block with a fixed pattern from now on: a read of uninitialised memory in
        // either gz layer (zlib-ng allocates with malloc, zlib-rs through the Rust allocator = malloc) becomes a
        // deterministic function of the case instead of the heap history
        use std::sync::Once;
        static ONCE: Once = Once::new();
        ONCE.call_once(|| unsafe {
            libc::mallopt(libc::M_PERTURB, 0x5A);
        });
    }
    // the last tape byte (not consumed, so nothing else changes meaning) selects alternative entry points
    let alt = match tape.last() {
        Some(&b) if b >= 0xA0 => (b >> 3) & 3,
        _ => 0,
    };
    ALT.with(|a| a.set(alt));
    if alt & 1 != 0 {
        o.class("opened with open(2) + gzdopen");
    }
    if alt & 2 != 0 {
        o.class("closed with gzclose_r / gzclose_w");
    }
    if t.below(5) < 2 {
        write_case(&mut t, ctx, &mut o);
    } else {
        read_case(&mut t, ctx, &mut o);
    }
    ALT.with(|a| a.set(0));
    o
}

pub fn property() -> Property {
    Property { id: "C17", rule: RULE, phases: vec![Phase::Prop { name: "gz file operation sequences", f: case, quick: 200_000, thorough: 6_000_000, max_tape: 300 }] }
}
