//! C18 — allocator discipline: balanced alloc/free; clean failure when allocation fails.
use crate::api::*;
use crate::einf::*;
use crate::gen::*;
use crate::guard::{self, Tracker, FOREIGN_ERRORS};
use crate::json::J;
use crate::runner::*;
use crate::tape::{Fp, Tape};
use core::ffi::{c_int, c_uint, c_void};

pub const RULE: &str = "tape -> history over {deflateInit2, deflateSetDictionary, deflate*, deflateCopy (then both streams live), deflateReset, deflateEnd} or {inflateInit2, inflate*, inflateCopy, inflateReset2, inflateEnd} or {inflateBackInit, inflateBack, inflateBackEnd}, with a tracking zalloc/zfree (live set keyed by pointer, opaque check, garbage fill, poison on free; sometimes only one of the two callbacks is supplied - obtaining and releasing must still go through one and the same allocator); plus gz-layer histories under a counting / failing global allocator. The history is run once to count the N allocation requests, then re-run for EVERY k < N with request k failing and with all requests >= k failing (exhaustive in k). Oracle: every block obtained is released exactly once with the same opaque no later than End; nothing foreign is released; on a failing run the call in progress returns Z_MEM_ERROR, then the ordinary clean-up (End on every stream held, including the destination of a failed copy) leaves the live set empty and frees nothing twice, re-initialisation succeeds, and the other stream still produces exactly the control output. Non-trivial = the failing request is not the first of the history or the history has a copy/reset before the failure; distinct by (history, k, mode).";

#[derive(Clone, Copy, PartialEq, Debug)]
enum FailMode {
    None,
    At(usize),
    From(usize),
}

struct Hist {
    kind: usize, // 0 deflate, 1 inflate, 2 inflateBack
    cfg: DefCfg,
    data: Vec<u8>,
    comp: Vec<u8>,
    dict: Option<Vec<u8>>,
    pre_calls: usize,
    chunk: usize,
    do_copy: bool,
    do_reset: bool,
    end_copy_first: bool,
    wbits_inf: c_int,
    /// end the original stream prematurely (busy), then End again / re-init with failing allocator / End
    abandon: bool,
    /// 0: zalloc and zfree both supplied; 1: only zalloc; 2: only zfree (the library must then use ONE allocator
    /// consistently - whichever - for obtaining and releasing)
    partial: u8,
}

struct RunOut {
    outs: Vec<Vec<u8>>,
    mem_errors: Vec<&'static str>,
    problems: Vec<(String, String)>,
    requests: usize,
}

fn apply_mode(tr: &Tracker, m: FailMode) {
    match m {
        FailMode::At(k) => tr.set_fail(Some(k), None),
        FailMode::From(k) => tr.set_fail(None, Some(k)),
        FailMode::None => tr.set_fail(None, None),
    }
}

fn feed_deflate(s: &mut z_stream, data: &[u8], pos: &mut usize, upto: usize, chunk: usize, flush_last: c_int, out: &mut Vec<u8>, ar: &Arenas) -> c_int {
    let mut rc = Z_OK;
    loop {
        let end = (*pos + chunk.max(1)).min(upto);
        let fl = if end == upto { flush_last } else { Z_NO_FLUSH };
        let ip = ar.inp.put_right(&data[*pos..end]);
        s.next_in = ip;
        s.avail_in = (end - *pos) as u32;
        loop {
            let oc = 1 << 16;
            let op = ar.out.right(oc);
            s.next_out = op;
            s.avail_out = oc as u32;
            rc = unsafe { Rs::deflate(s, fl) };
            let n = oc - s.avail_out as usize;
            out.extend_from_slice(unsafe { core::slice::from_raw_parts(op, n) });
            if rc != Z_OK && rc != Z_BUF_ERROR {
                break;
            }
            if s.avail_in == 0 && s.avail_out != 0 {
                break;
            }
        }
        *pos = end;
        if rc == Z_STREAM_END || (rc != Z_OK && rc != Z_BUF_ERROR) || *pos >= upto {
            break;
        }
    }
    rc
}

fn feed_inflate(s: &mut z_stream, comp: &[u8], pos: &mut usize, upto: usize, chunk: usize, out: &mut Vec<u8>, ar: &Arenas) -> c_int {
    let mut rc = Z_OK;
    while *pos < upto {
        let end = (*pos + chunk.max(1)).min(upto);
        let ip = ar.inp.put_right(&comp[*pos..end]);
        s.next_in = ip;
        s.avail_in = (end - *pos) as u32;
        loop {
            let oc = 1 << 16;
            let op = ar.out.right(oc);
            s.next_out = op;
            s.avail_out = oc as u32;
            rc = unsafe { Rs::inflate(s, Z_NO_FLUSH) };
            let n = oc - s.avail_out as usize;
            out.extend_from_slice(unsafe { core::slice::from_raw_parts(op, n) });
            if rc != Z_OK {
                break;
            }
            if s.avail_in == 0 && s.avail_out != 0 {
                break;
            }
        }
        *pos = end - s.avail_in as usize;
        if rc != Z_OK && rc != Z_BUF_ERROR {
            break;
        }
        if s.avail_in != 0 {
            break;
        }
    }
    rc
}

struct BackCtx {
    data: *const u8,
    len: usize,
    pos: usize,
    slice: usize,
    out: Vec<u8>,
}

unsafe extern "C" fn back_in(desc: *mut c_void, buf: *mut *const u8) -> c_uint {
    let c = unsafe { &mut *(desc as *mut BackCtx) };
    let n = c.slice.min(c.len - c.pos);
    unsafe { *buf = c.data.add(c.pos) };
    c.pos += n;
    n as c_uint
}

unsafe extern "C" fn back_out(desc: *mut c_void, buf: *mut u8, len: c_uint) -> c_int {
    let c = unsafe { &mut *(desc as *mut BackCtx) };
    c.out.extend_from_slice(unsafe { core::slice::from_raw_parts(buf, len as usize) });
    0
}

fn run_hist(h: &Hist, tr: &Tracker, mode: FailMode, ar: &Arenas) -> RunOut {
    let mut ro = RunOut { outs: vec![Vec::new(), Vec::new()], mem_errors: Vec::new(), problems: Vec::new(), requests: 0 };
    let base_req = tr.requests();
    apply_mode(
        tr,
        match mode {
            FailMode::At(k) => FailMode::At(base_req + k),
            FailMode::From(k) => FailMode::From(base_req + k),
            FailMode::None => FailMode::None,
        },
    );
    let mut s = Box::new(zs());
    tr.install(&mut s);
    match h.partial {
        1 => s.zfree = None,
        2 => s.zalloc = None,
        _ => {}
    }
    let mut t: Option<Box<z_stream>> = None;
    macro_rules! problem {
        ($sig:expr, $($arg:tt)*) => {
            ro.problems.push(($sig.to_string(), format!($($arg)*)))
        };
    }
    match h.kind {
        0 => {
            let init = |s: &mut z_stream| unsafe { Rs::deflateInit2(s, h.cfg.level, 8, h.cfg.window_bits_arg(), h.cfg.mem_level, h.cfg.strategy) };
            let mut rc = init(&mut s);
            if rc == Z_MEM_ERROR {
                ro.mem_errors.push("deflateInit2");
                if tr.live_count() > 0 {
                    problem!("deflateInit2/leak-on-failure", "deflateInit2 returned Z_MEM_ERROR but {} block(s) are still allocated", tr.live_count());
                }
                // ordinary clean-up: End on the stream the caller holds
                let e = unsafe { Rs::deflateEnd(&mut *s) };
                if e != Z_STREAM_ERROR && e != Z_OK {
                    problem!("deflateEnd/after-failed-init", "deflateEnd after a failed init returned {}", rc_name(e));
                }
                // re-initialisation must be safe once memory is available again
                apply_mode(tr, FailMode::None);
                rc = init(&mut s);
            }
            if rc != Z_OK {
                problem!("deflateInit2/status", "deflateInit2 returned {} ({})", rc_name(rc), h.cfg.describe());
                ro.requests = tr.requests() - base_req;
                return ro;
            }
            if let Some(d) = &h.dict {
                let dp = ar.dict.put_right(&d[..d.len().min(ar.dict.cap)]);
                unsafe { Rs::deflateSetDictionary(&mut *s, dp, d.len().min(ar.dict.cap) as u32) };
            }
            let mut pos = 0usize;
            let cut = (h.pre_calls * h.chunk).min(h.data.len());
            let mut o0 = Vec::new();
            if cut > 0 {
                feed_deflate(&mut s, &h.data, &mut pos, cut, h.chunk, Z_NO_FLUSH, &mut o0, ar);
            }
            let pre_end = false;
            if h.do_copy {
                let mut d = Box::new(zs());
                let rc = unsafe { Rs::deflateCopy(&mut *d, &mut *s) };
                match rc {
                    Z_OK => t = Some(d),
                    Z_MEM_ERROR => {
                        ro.mem_errors.push("deflateCopy");
                        // ordinary clean-up: the caller ends the destination it holds
                        let e = unsafe { Rs::deflateEnd(&mut *d) };
                        if !matches!(e, Z_OK | Z_STREAM_ERROR | Z_DATA_ERROR) {
                            problem!("deflateEnd/after-failed-copy", "deflateEnd(dest) after a failed deflateCopy returned {}", rc_name(e));
                        }
                        apply_mode(tr, FailMode::None);
                    }
                    _ => problem!("deflateCopy/status", "deflateCopy returned {}", rc_name(rc)),
                }
            }
            if h.abandon {
                // the caller gives up on the (busy) original: End, End again, failed re-init, End, good re-init
                let e = unsafe { Rs::deflateEnd(&mut *s) };
                if !matches!(e, Z_OK | Z_DATA_ERROR) {
                    problem!("deflateEnd/busy-status", "deflateEnd on a stream in use returned {}", rc_name(e));
                }
                let e2 = unsafe { Rs::deflateEnd(&mut *s) };
                if e2 != Z_STREAM_ERROR {
                    problem!("deflateEnd/twice", "a second deflateEnd after ending a busy stream returned {} (expected Z_STREAM_ERROR)", rc_name(e2));
                }
                let saved = tr.get_fail();
                tr.set_fail(None, Some(tr.requests()));
                let r = init(&mut s);
                tr.set_fail(saved.0, saved.1);
                if r != Z_MEM_ERROR {
                    problem!("deflateInit2/no-mem-error", "deflateInit2 with a failing allocator returned {}", rc_name(r));
                }
                let e3 = unsafe { Rs::deflateEnd(&mut *s) };
                if e3 != Z_STREAM_ERROR {
                    problem!("deflateEnd/after-failed-reinit", "deflateEnd after End + failed re-init returned {} (expected Z_STREAM_ERROR)", rc_name(e3));
                }
                if let Some(mut d) = t.take() {
                    unsafe { Rs::deflateEnd(&mut *d) };
                }
                ro.mem_errors.push("deflateInit2");
                ro.outs[0] = Vec::new();
                ro.requests = tr.requests() - base_req;
                return ro;
            }
            // continue: both streams get the rest
            let mut o1 = o0.clone();
            let mut p1 = pos;
            if h.end_copy_first {
                if let Some(mut d) = t.take() {
                    let rc = feed_deflate(&mut d, &h.data, &mut p1, h.data.len(), h.chunk, Z_FINISH, &mut o1, ar);
                    if rc != Z_STREAM_END {
                        problem!("copy/finish", "the copy did not reach stream end ({})", rc_name(rc));
                    }
                    unsafe { Rs::deflateEnd(&mut *d) };
                    ro.outs[1] = o1.clone();
                }
            }
            let rc = feed_deflate(&mut s, &h.data, &mut pos, h.data.len(), h.chunk, Z_FINISH, &mut o0, ar);
            if rc != Z_STREAM_END && !pre_end {
                problem!("orig/finish", "the original did not reach stream end ({}) after the failure was handled", rc_name(rc));
            }
            if let Some(mut d) = t.take() {
                let rc = feed_deflate(&mut d, &h.data, &mut p1, h.data.len(), h.chunk, Z_FINISH, &mut o1, ar);
                if rc != Z_STREAM_END {
                    problem!("copy/finish", "the copy did not reach stream end ({})", rc_name(rc));
                }
                unsafe { Rs::deflateEnd(&mut *d) };
                ro.outs[1] = o1;
            }
            ro.outs[0] = o0;
            if h.do_reset {
                let rc = unsafe { Rs::deflateReset(&mut *s) };
                if rc != Z_OK {
                    problem!("deflateReset/status", "deflateReset returned {}", rc_name(rc));
                }
                let mut o2 = Vec::new();
                let mut p2 = 0;
                let n2 = h.data.len().min(3000);
                feed_deflate(&mut s, &h.data, &mut p2, n2, h.chunk, Z_FINISH, &mut o2, ar);
                ro.outs.push(o2);
            }
            let e = unsafe { Rs::deflateEnd(&mut *s) };
            if e != Z_OK {
                problem!("deflateEnd/status", "deflateEnd returned {}", rc_name(e));
            }
            let e2 = unsafe { Rs::deflateEnd(&mut *s) };
            if e2 != Z_STREAM_ERROR {
                problem!("deflateEnd/twice", "a second deflateEnd returned {} (expected Z_STREAM_ERROR)", rc_name(e2));
            }
        }
        1 => {
            let init = |s: &mut z_stream| unsafe { Rs::inflateInit2(s, h.wbits_inf) };
            let mut rc = init(&mut s);
            if rc == Z_MEM_ERROR {
                ro.mem_errors.push("inflateInit2");
                if tr.live_count() > 0 {
                    problem!("inflateInit2/leak-on-failure", "inflateInit2 returned Z_MEM_ERROR but {} block(s) are still allocated", tr.live_count());
                }
                let e = unsafe { Rs::inflateEnd(&mut *s) };
                if e != Z_STREAM_ERROR && e != Z_OK {
                    problem!("inflateEnd/after-failed-init", "inflateEnd after a failed init returned {}", rc_name(e));
                }
                apply_mode(tr, FailMode::None);
                rc = init(&mut s);
            }
            if rc != Z_OK {
                problem!("inflateInit2/status", "inflateInit2({}) returned {}", h.wbits_inf, rc_name(rc));
                ro.requests = tr.requests() - base_req;
                return ro;
            }
            let mut pos = 0usize;
            let cut = (h.pre_calls * h.chunk).min(h.comp.len());
            let mut o0 = Vec::new();
            let mut pre_end = false;
            if cut > 0 {
                pre_end = feed_inflate(&mut s, &h.comp, &mut pos, cut, h.chunk, &mut o0, ar) == Z_STREAM_END;
            }
            if h.do_copy {
                let mut d = Box::new(zs());
                let rc = unsafe { Rs::inflateCopy(&mut *d, &mut *s) };
                match rc {
                    Z_OK => t = Some(d),
                    Z_MEM_ERROR => {
                        ro.mem_errors.push("inflateCopy");
                        let e = unsafe { Rs::inflateEnd(&mut *d) };
                        if !matches!(e, Z_OK | Z_STREAM_ERROR) {
                            problem!("inflateEnd/after-failed-copy", "inflateEnd(dest) after a failed inflateCopy returned {}", rc_name(e));
                        }
                        apply_mode(tr, FailMode::None);
                    }
                    _ => {
                        if !(rc == Z_STREAM_ERROR && cut == 0) {
                            problem!("inflateCopy/status", "inflateCopy returned {}", rc_name(rc));
                        }
                    }
                }
            }
            if h.abandon {
                let e = unsafe { Rs::inflateEnd(&mut *s) };
                if e != Z_OK {
                    problem!("inflateEnd/busy-status", "inflateEnd on a stream in use returned {}", rc_name(e));
                }
                let e2 = unsafe { Rs::inflateEnd(&mut *s) };
                if e2 != Z_STREAM_ERROR {
                    problem!("inflateEnd/twice", "a second inflateEnd returned {} (expected Z_STREAM_ERROR)", rc_name(e2));
                }
                let saved = tr.get_fail();
                tr.set_fail(None, Some(tr.requests()));
                let r = init(&mut s);
                tr.set_fail(saved.0, saved.1);
                if std::env::var("VERIF_DEBUG").is_ok() {
                    eprintln!("abandon-inflate: r {} requests {} failed {} saved {:?} zalloc set {}", r, tr.requests(), tr.failed(), saved, s.zalloc.is_some());
                }
                if r != Z_MEM_ERROR {
                    problem!("inflateInit2/no-mem-error", "inflateInit2 with a failing allocator returned {}", rc_name(r));
                }
                let e3 = unsafe { Rs::inflateEnd(&mut *s) };
                if e3 != Z_STREAM_ERROR {
                    problem!("inflateEnd/after-failed-reinit", "inflateEnd after End + failed re-init returned {} (expected Z_STREAM_ERROR)", rc_name(e3));
                }
                if let Some(mut d) = t.take() {
                    unsafe { Rs::inflateEnd(&mut *d) };
                }
                ro.mem_errors.push("inflateInit2");
                ro.outs[0] = Vec::new();
                ro.requests = tr.requests() - base_req;
                return ro;
            }
            let mut o1 = o0.clone();
            let mut p1 = pos;
            if h.end_copy_first {
                if let Some(mut d) = t.take() {
                    feed_inflate(&mut d, &h.comp, &mut p1, h.comp.len(), h.chunk, &mut o1, ar);
                    unsafe { Rs::inflateEnd(&mut *d) };
                    ro.outs[1] = o1.clone();
                }
            }
            let rc = feed_inflate(&mut s, &h.comp, &mut pos, h.comp.len(), h.chunk, &mut o0, ar);
            if rc != Z_STREAM_END && !pre_end {
                problem!("orig/finish", "the original inflate stream did not reach stream end ({})", rc_name(rc));
            }
            if let Some(mut d) = t.take() {
                feed_inflate(&mut d, &h.comp, &mut p1, h.comp.len(), h.chunk, &mut o1, ar);
                unsafe { Rs::inflateEnd(&mut *d) };
                ro.outs[1] = o1;
            }
            ro.outs[0] = o0;
            if h.do_reset {
                let rc = unsafe { Rs::inflateReset2(&mut *s, h.wbits_inf) };
                if rc != Z_OK {
                    problem!("inflateReset2/status", "inflateReset2 returned {}", rc_name(rc));
                }
                let mut o2 = Vec::new();
                let mut p2 = 0;
                feed_inflate(&mut s, &h.comp, &mut p2, h.comp.len(), h.chunk, &mut o2, ar);
                ro.outs.push(o2);
            }
            let e = unsafe { Rs::inflateEnd(&mut *s) };
            if e != Z_OK {
                problem!("inflateEnd/status", "inflateEnd returned {}", rc_name(e));
            }
            let e2 = unsafe { Rs::inflateEnd(&mut *s) };
            if e2 != Z_STREAM_ERROR {
                problem!("inflateEnd/twice", "a second inflateEnd returned {} (expected Z_STREAM_ERROR)", rc_name(e2));
            }
        }
        _ => {
            let wb = 15;
            let win = ar.aux[0].right(1 << wb);
            let mut rc = unsafe { Rs::inflateBackInit(&mut *s, wb, win) };
            if rc == Z_MEM_ERROR {
                ro.mem_errors.push("inflateBackInit");
                if tr.live_count() > 0 {
                    problem!("inflateBackInit/leak-on-failure", "inflateBackInit returned Z_MEM_ERROR but {} block(s) are still allocated", tr.live_count());
                }
                let e = unsafe { Rs::inflateBackEnd(&mut *s) };
                if e != Z_STREAM_ERROR && e != Z_OK {
                    problem!("inflateBackEnd/after-failed-init", "inflateBackEnd after a failed init returned {}", rc_name(e));
                }
                apply_mode(tr, FailMode::None);
                rc = unsafe { Rs::inflateBackInit(&mut *s, wb, win) };
            }
            if rc != Z_OK {
                problem!("inflateBackInit/status", "inflateBackInit returned {}", rc_name(rc));
                ro.requests = tr.requests() - base_req;
                return ro;
            }
            let ip = ar.inp.put_right(&h.comp);
            let mut c = BackCtx { data: ip, len: h.comp.len(), pos: 0, slice: h.chunk.max(1), out: Vec::new() };
            s.next_in = core::ptr::null();
            s.avail_in = 0;
            let rc = unsafe { Rs::inflateBack(&mut *s, Some(back_in), &mut c as *mut BackCtx as *mut c_void, Some(back_out), &mut c as *mut BackCtx as *mut c_void) };
            if rc != Z_STREAM_END {
                problem!("inflateBack/status", "inflateBack on a valid raw stream returned {}", rc_name(rc));
            }
            ro.outs[0] = c.out;
            let e = unsafe { Rs::inflateBackEnd(&mut *s) };
            if e != Z_OK {
                problem!("inflateBackEnd/status", "inflateBackEnd returned {}", rc_name(e));
            }
        }
    }
    ro.requests = tr.requests() - base_req;
    ro
}

// ---- gz layer: the Rust global allocator is the "caller-supplied allocator" there ---------------------------

use crate::props::c17::{Gz, ROp, RsGz, WOp};
use core::ffi::c_char;

/// RsGz with the counting / failing global allocator armed exactly for the duration of each library call
pub struct ArmedGz;
macro_rules! armed {
    ($e:expr) => {{
        crate::galloc::arm();
        let r = $e;
        crate::galloc::disarm();
        r
    }};
}
impl Gz for ArmedGz {
    const NAME: &'static str = "zlib-rs (allocator armed)";
    unsafe fn open(path: *const c_char, mode: *const c_char) -> *mut c_void { armed!(unsafe { RsGz::open(path, mode) }) }
    unsafe fn buffer(f: *mut c_void, size: c_uint) -> c_int { armed!(unsafe { RsGz::buffer(f, size) }) }
    unsafe fn read(f: *mut c_void, buf: *mut u8, len: c_uint) -> c_int { armed!(unsafe { RsGz::read(f, buf, len) }) }
    unsafe fn fread(buf: *mut u8, size: usize, n: usize, f: *mut c_void) -> usize { armed!(unsafe { RsGz::fread(buf, size, n, f) }) }
    unsafe fn write(f: *mut c_void, buf: *const u8, len: c_uint) -> c_int { armed!(unsafe { RsGz::write(f, buf, len) }) }
    unsafe fn fwrite(buf: *const u8, size: usize, n: usize, f: *mut c_void) -> usize { armed!(unsafe { RsGz::fwrite(buf, size, n, f) }) }
    unsafe fn putc(f: *mut c_void, c: c_int) -> c_int { armed!(unsafe { RsGz::putc(f, c) }) }
    unsafe fn puts(f: *mut c_void, s: *const c_char) -> c_int { armed!(unsafe { RsGz::puts(f, s) }) }
    unsafe fn getc(f: *mut c_void) -> c_int { armed!(unsafe { RsGz::getc(f) }) }
    unsafe fn ungetc(c: c_int, f: *mut c_void) -> c_int { armed!(unsafe { RsGz::ungetc(c, f) }) }
    unsafe fn gets(f: *mut c_void, buf: *mut c_char, len: c_int) -> *mut c_char { armed!(unsafe { RsGz::gets(f, buf, len) }) }
    unsafe fn seek(f: *mut c_void, off: i64, whence: c_int) -> i64 { armed!(unsafe { RsGz::seek(f, off, whence) }) }
    unsafe fn rewind(f: *mut c_void) -> c_int { armed!(unsafe { RsGz::rewind(f) }) }
    unsafe fn tell(f: *mut c_void) -> i64 { armed!(unsafe { RsGz::tell(f) }) }
    unsafe fn offset(f: *mut c_void) -> i64 { armed!(unsafe { RsGz::offset(f) }) }
    unsafe fn eof(f: *mut c_void) -> c_int { armed!(unsafe { RsGz::eof(f) }) }
    unsafe fn direct(f: *mut c_void) -> c_int { armed!(unsafe { RsGz::direct(f) }) }
    unsafe fn flush(f: *mut c_void, m: c_int) -> c_int { armed!(unsafe { RsGz::flush(f, m) }) }
    unsafe fn setparams(f: *mut c_void, l: c_int, s: c_int) -> c_int { armed!(unsafe { RsGz::setparams(f, l, s) }) }
    unsafe fn close(f: *mut c_void) -> c_int { armed!(unsafe { RsGz::close(f) }) }
    unsafe fn clearerr(f: *mut c_void) { armed!(unsafe { RsGz::clearerr(f) }) }
}

/// gz histories (open, operations, close) under the counting allocator: balanced on the fault-free run, and for
/// every failing request k (and fail-all-after-k): no leak after gzclose / a refused gzopen, no foreign free,
/// no crash, and a following fault-free open/close cycle on the same file works
fn gz_case(t: &mut Tape, ctx: &Ctx, o: &mut Outcome) {
    let writing = t.below(5) < 2;
    let bufsize = if t.chance(160) { Some(t.pick(&[8u32, 16, 64, 100, 512, 4096, 8192, 70000])) } else { None };
    let sizes = [0usize, 1, 2, 7, 16, 100, 512, 1000, 4096, 8192, 8193, 20000, 70000];
    let dir = crate::props::c17::tmpdir();
    let path = format!("{}/c18-gz.bin", dir);
    let nops = 1 + t.below(8);
    let mut wops: Vec<WOp> = Vec::new();
    let mut rops: Vec<ROp> = Vec::new();
    let mut mode = String::new();
    let mut pool: Vec<u8> = Vec::new();
    let fclass;
    if writing {
        mode = t.pick(&["w", "wb", "w9", "w1", "w0", "wT", "wh", "wR", "a", "wf"]).to_string();
        pool = gen_data(t, 15, 20_000);
        if pool.is_empty() {
            pool.push(b'x');
        }
        for _ in 0..nops {
            wops.push(match t.below(12) {
                0..=4 => WOp::Write(t.pick(&sizes)),
                5 => WOp::FWrite(t.pick(&[1usize, 2, 7, 100]), t.pick(&[0usize, 1, 10, 100])),
                6 => WOp::Putc(t.u8()),
                7 => WOp::Puts(t.pick(&[0usize, 1, 100, 5000])),
                8 => WOp::Flush(t.pick(&[0, 2, 3, 4])),
                9 => WOp::SetParams(t.pick(&[0, 1, 6, 9]), t.pick(&[0, 1, 2, 3, 4])),
                10 => WOp::Seek(t.pick(&[0i64, 1, 100, 70000, -1]), t.pick(&[0, 1, 1])),
                _ => WOp::Tell,
            });
        }
        let _ = std::fs::remove_file(&path);
        fclass = "gz write history";
    } else {
        let k = t.below(8);
        let n = t.pick(&[0usize, 5, 600, 9000, 70_000]);
        let d = gen_data(t, 15, n);
        let cfg = DefCfg { level: t.pick(&[0, 1, 6, 9]), strategy: 0, wrap: crate::refimpl::rgzh::Wrap::Gzip, wbits: 15, mem_level: 8 };
        let member = deflate_oneshot::<Ng>(&cfg, &d, None).unwrap_or_default();
        let file: Vec<u8> = match k {
            0..=2 => member,
            3 => {
                let mut f = member.clone();
                f.extend_from_slice(&member);
                f
            }
            4 => {
                let mut p = d.clone();
                if p.is_empty() || p[0] == 0x1f {
                    p.insert(0, b'p');
                }
                p
            }
            5 => Vec::new(),
            6 => member[..t.below(member.len().max(1))].to_vec(),
            _ => {
                let mut f = member.clone();
                if !f.is_empty() {
                    let i = t.below(f.len());
                    f[i] ^= 1 << t.below(8);
                }
                f
            }
        };
        fclass = ["gz read: gzip member", "gz read: gzip member", "gz read: gzip member", "gz read: two members", "gz read: plain file (direct mode)", "gz read: empty file (direct mode)", "gz read: truncated member", "gz read: corrupted member"][k];
        let _ = std::fs::write(&path, &file);
        for _ in 0..nops {
            rops.push(match t.below(12) {
                0..=3 => ROp::Read(t.pick(&sizes)),
                4 => ROp::FRead(t.pick(&[1usize, 2, 7, 100]), t.pick(&[0usize, 1, 10, 100])),
                5 => ROp::Getc,
                6 => ROp::Ungetc(t.pick(&[b'a' as c_int, 0, 255])),
                7 => ROp::Gets(t.pick(&[1, 2, 10, 100, 5000])),
                8 => ROp::Seek(t.pick(&[0i64, 1, 100, 5000, 70000, -1]), t.pick(&[0, 1, 1])),
                9 => ROp::Rewind,
                10 => ROp::Direct,
                _ => ROp::Eof,
            });
        }
    }
    // one run; returns (open succeeded, close rc)
    let run = |fail_at: Option<usize>, fail_after: bool| -> (bool, c_int) {
        crate::galloc::reset(fail_at, fail_after);
        if writing {
            let _ = std::fs::remove_file(&path);
            let (r, rc) = crate::props::c17::run_write::<ArmedGz>(&path, &mode, bufsize, &wops, &pool);
            (r.is_some(), rc)
        } else {
            match crate::props::c17::run_read::<ArmedGz>(&path, bufsize, &rops) {
                Some((_, rc)) => (true, rc),
                None => (false, -100),
            }
        }
    };
    let describe = |k: Option<usize>, fa: bool| -> String { if writing { format!("gzopen(mode {:?}) gzbuffer {:?} ops {:?} gzclose; failing request {:?} (fail all later ones: {})", mode, bufsize, wops, k, fa) } else { format!("{}: gzopen(rb) gzbuffer {:?} ops {:?} gzclose; failing request {:?} (fail all later ones: {})", fclass, bufsize, rops, k, fa) } };
    let verdict = |o: &mut Outcome, k: Option<usize>, fa: bool| -> bool {
        let (n, b) = crate::galloc::live();
        if crate::galloc::overflow() {
            o.internal = Some("galloc table overflow".into());
            return false;
        }
        if n != 0 {
            o.fail("gz/leak", format!("{} block(s) / {} byte(s) obtained from the allocator by the gz layer are still live after gzclose (or after a refused gzopen) [{}]", n, b, describe(k, fa)));
            return false;
        }
        if crate::galloc::foreign_frees() != 0 {
            o.fail("gz/bad-free", format!("the gz layer released {} block(s) it had not obtained [{}]", crate::galloc::foreign_frees(), describe(k, fa)));
            return false;
        }
        true
    };
    let (opened, _rc0) = run(None, false);
    let nreq = crate::galloc::requests();
    o.evals = 1;
    if !verdict(o, None, false) {
        return;
    }
    if nreq == 0 {
        // allocator not installed in this build (nothing to count): no verdict
        return;
    }
    o.class(fclass);
    let fa_too = t.chance(90);
    let ks: Vec<usize> = if nreq <= 40 { (0..nreq).collect() } else { (0..40).map(|i| i * nreq / 40).collect() };
    for &k in &ks {
        for fa in [false, true] {
            if fa && !fa_too {
                continue;
            }
            let _ = run(Some(k), fa);
            o.evals += 1;
            if !verdict(o, Some(k), fa) {
                return;
            }
            // re-initialisation after the failure: a fault-free cycle must work like the first one
            let (opened2, _) = run(None, false);
            if !verdict(o, Some(k), fa) {
                return;
            }
            if opened2 != opened {
                o.fail("gz/reopen-after-failure", format!("after a run with an injected allocation failure gzopen on the same file answers differently (handle {} vs {}) [{}]", opened2, opened, describe(Some(k), fa)));
                return;
            }
        }
    }
    crate::galloc::reset(None, false);
    o.class("gz layer: every failing request enumerated");
    let mut fp = Fp::new();
    fp.bytes(describe(None, false).as_bytes()).bytes(&pool[..pool.len().min(64)]);
    o.nontrivial = Some(fp.0);
    if ctx.want_sample {
        o.sample = Some(J::obj().set("kind", J::s("gz layer")).set("history", J::s(describe(None, false))).set("allocation_requests", J::U(nreq as u64)).set("failure_points_enumerated", J::U(ks.len() as u64)));
    }
}

pub fn case(tape: &[u8], ctx: &Ctx) -> Outcome {
    let mut o = Outcome::new();
    // one case in ~5 drives the gz layer (selected by the last tape byte; the rest is its tape)
    if let Some((&last, rest)) = tape.split_last() {
        if last >= 208 {
            let mut t = Tape::new(rest);
            gz_case(&mut t, ctx, &mut o);
            return o;
        }
    }
    let mut t = Tape::new(tape);
    let kind = [0usize, 0, 1, 1, 2][t.below(5)];
    let mut cfg = gen_cfg(&mut t);
    if kind == 2 {
        cfg.wrap = crate::refimpl::rgzh::Wrap::Raw;
        if cfg.wbits == 8 {
            cfg.wbits = 9;
        }
    }
    let maxd = t.pick(&[50usize, 3000, 40_000]);
    let data = gen_data(&mut t, cfg.eff_wbits(), maxd);
    let dict = if kind == 0 && cfg.wrap != crate::refimpl::rgzh::Wrap::Gzip && t.chance(64) { Some(crate::edef::gen_dict(&mut t, 1 << cfg.eff_wbits(), &data)) } else { None };
    let comp = match deflate_oneshot::<Ng>(&cfg, &data, None) {
        Some(c) => c,
        None => return o,
    };
    let mut h = Hist {
        kind,
        cfg,
        data,
        comp,
        dict,
        pre_calls: t.below(6),
        chunk: t.pick(&[1usize, 10, 100, 1000, 100_000]),
        do_copy: kind != 2 && t.chance(180),
        do_reset: kind != 2 && t.chance(100),
        end_copy_first: t.bool(),
        wbits_inf: cfg.inflate_bits(),
        abandon: kind != 2 && t.chance(70),
        partial: 0,
    };
    let fill = t.pick(&[0x00u8, 0xFF, 0xA5, 0x5A]);
    h.partial = [0u8, 0, 0, 0, 0, 0, 1, 2][t.below(8)];
    if h.partial != 0 {
        // the library falls back to its own allocator: nothing of ours can be made to fail
        h.abandon = false;
    }
    let h = h;
    ARENAS.with(|ar| {
        let tr = Tracker::new(fill);
        guard::register(&tr);
        FOREIGN_ERRORS.with(|e| e.borrow_mut().clear());
        let describe = format!("{} data {} bytes pre_calls {} chunk {} copy {} reset {} end_copy_first {} abandon {}", ["deflate", "inflate", "inflateBack"][h.kind], h.data.len(), h.pre_calls, h.chunk, h.do_copy, h.do_reset, h.end_copy_first, h.abandon);
        let check_clean = |tr: &Tracker, o: &mut Outcome, what: &str| -> bool {
            if let Some(e) = tr.first_error() {
                o.fail("allocator/bad-free", format!("{}: {} [{}; {}]", what, e, describe, h.cfg.describe()));
                return false;
            }
            let fe = FOREIGN_ERRORS.with(|e| e.borrow().first().cloned());
            if let Some(e) = fe {
                o.fail("allocator/foreign-opaque", format!("{}: {} [{}]", what, e, describe));
                return false;
            }
            if tr.live_count() > 0 {
                let n = tr.live_count();
                tr.leak_free_all();
                o.fail("allocator/leak", format!("{}: {} block(s) obtained from zalloc were not released by the matching End [{}; {}]", what, n, describe, h.cfg.describe()));
                return false;
            }
            true
        };
        // control run
        let control = run_hist(&h, &tr, FailMode::None, ar);
        if let Some((sig, msg)) = control.problems.first() {
            // without injected failures the history must simply work; anything else is not C18's business
            // except allocator discipline, checked below
            if sig.starts_with("deflateEnd/") || sig.starts_with("inflateEnd/") || sig.contains("no-mem-error") {
                o.fail(sig.clone(), format!("{} [{}]", msg, describe));
                guard::unregister(&tr);
                return;
            }
        }
        if !check_clean(&tr, &mut o, "control run") {
            guard::unregister(&tr);
            return;
        }
        let n = control.requests;
        o.evals = 1;
        let mut nontrivial_runs = 0;
        for k in 0..n {
            for mode in [FailMode::At(k), FailMode::From(k)] {
                let r = run_hist(&h, &tr, mode, ar);
                o.evals += 1;
                let what = format!("request {} of {} failing ({:?})", k, n, mode);
                if r.mem_errors.is_empty() {
                    o.fail("mem-error-not-reported", format!("{}: no call reported Z_MEM_ERROR although an allocation request was refused [{}]", what, describe));
                    guard::unregister(&tr);
                    return;
                }
                if let Some((sig, msg)) = r.problems.first() {
                    o.fail(format!("after-failure/{}", sig), format!("{}: {} [{}; {}]", what, msg, describe, h.cfg.describe()));
                    guard::unregister(&tr);
                    return;
                }
                if !check_clean(&tr, &mut o, &what) {
                    guard::unregister(&tr);
                    return;
                }
                // streams that survived must produce the control output
                if r.outs[0] != control.outs[0] {
                    o.fail("after-failure/original-output-differs", format!("{}: the original stream's output differs from the control run ({} vs {} bytes) [{}]", what, r.outs[0].len(), control.outs[0].len(), describe));
                    guard::unregister(&tr);
                    return;
                }
                if r.outs.len() > 2 && control.outs.len() > 2 && r.outs[2] != control.outs[2] {
                    o.fail("after-failure/reset-output-differs", format!("{}: output after reset differs from the control run [{}]", what, describe));
                    guard::unregister(&tr);
                    return;
                }
                if !r.outs[1].is_empty() && r.outs[1] != control.outs[1] {
                    o.fail("after-failure/copy-output-differs", format!("{}: the copy's output differs from the control run [{}]", what, describe));
                    guard::unregister(&tr);
                    return;
                }
                if k > 0 {
                    nontrivial_runs += 1;
                }
                for m in &r.mem_errors {
                    o.class(match *m {
                        "deflateInit2" => "MEM_ERROR at deflateInit2",
                        "deflateCopy" => "MEM_ERROR at deflateCopy",
                        "inflateInit2" => "MEM_ERROR at inflateInit2",
                        "inflateCopy" => "MEM_ERROR at inflateCopy",
                        _ => "MEM_ERROR at inflateBackInit",
                    });
                }
            }
        }
        guard::unregister(&tr);
        o.class(["history: deflate", "history: inflate", "history: inflateBack"][h.kind]);
        if nontrivial_runs > 0 {
            let mut fp = Fp::new();
            fp.bytes(describe.as_bytes()).bytes(h.cfg.describe().as_bytes()).bytes(&h.data);
            o.nontrivial = Some(fp.0);
            if ctx.want_sample {
                o.sample = Some(J::obj().set("history", J::s(describe.clone())).set("config", J::s(h.cfg.describe())).set("allocation_requests", J::U(n as u64)).set("fault_runs", J::U(2 * n as u64)));
            }
        }
    });
    o
}

pub fn property() -> Property {
    Property { id: "C18", rule: RULE, phases: vec![Phase::Prop { name: "histories x every failing allocation request", f: case, quick: 600_000, thorough: 3_000_000, max_tape: 200 }] }
}
