//! C19 — inflateBack equals inflate on in-window streams and is memory-safe on all input.
use crate::api::*;
use crate::einf::*;
use crate::gen::*;
use crate::guard::Arena;
use crate::json::{hex_cut, J};
use crate::refimpl::rdec::{inflate_raw, DecOpts, Verdict};
use crate::refimpl::rgen::{self, Fault, GenOpts};
use crate::runner::*;
use crate::tape::{Fp, Tape};
use core::ffi::{c_int, c_uint, c_void};

pub const RULE: &str = "tape -> windowBits 8..15 x raw deflate byte string from {R-GEN stream whose distances are all <= min(window, produced) ('valid for this window'), R-GEN single-fault streams other than distance faults, R-GEN streams with a distance beyond the window or beyond the produced data, encoder output, mutations, noise} x input-callback slice lengths (1-byte slices, 0 = end of input at any point, each slice in its own buffer ending at a guard page) x output-callback abort at the k-th call x initial next_in/avail_in. The window buffer is exactly 1<<bits bytes ending (or starting) at a guard page with canaries on the other side. Oracle: no signal/abort for ANY input, callbacks bounded; for streams valid for the window and non-distance faults: bytes handed to out() == what inflate / the reference decoder produce, Z_STREAM_END <=> inflate's stream end (strm.next_in/avail_in at the first unused byte), Z_DATA_ERROR <=> inflate's data error, Z_BUF_ERROR with next_in == NULL <=> input exhausted, Z_BUF_ERROR with next_in != NULL <=> out() aborted. For streams with a too-far distance only safety and termination are claimed. Non-trivial = output > window size (>= 2 out() calls), or >= 3 input slices, or an abort / exhaustion inside a block; distinct by case fingerprint.";

struct Ctxt {
    data: *const u8,
    len: usize,
    pos: usize,
    slices: Vec<usize>,
    si: usize,
    in_calls: usize,
    out_calls: usize,
    out: Vec<u8>,
    abort_at: Option<usize>,
    stage: [*const Arena; 2],
    ended_input: bool,
    win_lo: usize,
    win_hi: usize,
    bad_out_ptr: bool,
}

unsafe extern "C" fn in_cb(desc: *mut c_void, buf: *mut *const u8) -> c_uint {
    let c = unsafe { &mut *(desc as *mut Ctxt) };
    c.in_calls += 1;
    if c.in_calls > 3_000_000 {
        // counting oracle: the callbacks are finite
        unsafe { *buf = core::ptr::null() };
        return 0;
    }
    let want = if c.si < c.slices.len() { c.slices[c.si] } else { usize::MAX };
    c.si += 1;
    let n = want.min(c.len - c.pos);
    if n == 0 {
        c.ended_input = true;
        unsafe { *buf = core::ptr::null() };
        return 0;
    }
    // every slice in its own buffer that ends at a guard page (alternating arenas)
    let ar = unsafe { &*c.stage[c.in_calls % 2] };
    let n = n.min(ar.cap);
    let src = unsafe { core::slice::from_raw_parts(c.data.add(c.pos), n) };
    let p = ar.put_right(src);
    c.pos += n;
    unsafe { *buf = p };
    n as c_uint
}

unsafe extern "C" fn out_cb(desc: *mut c_void, buf: *mut u8, len: c_uint) -> c_int {
    let c = unsafe { &mut *(desc as *mut Ctxt) };
    c.out_calls += 1;
    let lo = buf as usize;
    let hi = lo + len as usize;
    if lo < c.win_lo || hi > c.win_hi {
        c.bad_out_ptr = true;
        return 1;
    }
    if c.out.len() < (1 << 23) {
        c.out.extend_from_slice(unsafe { core::slice::from_raw_parts(buf, len as usize) });
    }
    if Some(c.out_calls) == c.abort_at {
        return 1;
    }
    0
}

pub fn case(tape: &[u8], ctx: &Ctx) -> Outcome {
    let mut o = Outcome::new();
    let mut t = Tape::new(tape);
    let wbits = 8 + t.below(8) as u32;
    let w = 1usize << wbits;
    let kind = t.below(16);
    // ---- the byte string -------------------------------------------------------------------
    let (bytes, class): (Vec<u8>, &'static str);
    let mut expect_out: Option<Vec<u8>> = None;
    match kind {
        0..=6 => {
            // valid for this window
            let fault = if kind >= 5 { t.pick(&[Fault::BlockType3, Fault::BadNlen, Fault::Oversubscribed, Fault::Incomplete, Fault::Sym286, Fault::DistSym30, Fault::MissingEob, Fault::TooManyLens, Fault::TooManyDists, Fault::Repeat16First, Fault::RepeatPastEnd, Fault::BadClenCode]) } else { Fault::None };
            let max_out = t.pick(&[100usize, 3000, 40_000, 150_000]);
            let go = GenOpts { max_dist: w, max_out, dict: &[], fault, max_blocks: 6 };
            let g = rgen::gen_raw(&mut t, &go);
            let mut b = g.bytes;
            if fault == Fault::None {
                let tr = t.below(3) == 0;
                if tr {
                    let n = t.below(20);
                    b.extend(t.bytes(n));
                }
            }
            bytes = b;
            class = if g.faulted { "single fault (not a distance fault)" } else { "valid for this window" };
            expect_out = Some(g.out);
        }
        7 | 8 => {
            // distances beyond the window (valid deflate, but not for this window) or beyond produced data
            let far = kind == 7;
            let go = GenOpts { max_dist: if far { 32768 } else { w }, max_out: 100_000, dict: &[], fault: if far { Fault::None } else { Fault::DistTooFar }, max_blocks: 5 };
            let g = rgen::gen_raw(&mut t, &go);
            bytes = g.bytes;
            class = "distance beyond window or produced data (safety only)";
        }
        9 | 10 => {
            let mut cfg = gen_cfg(&mut t);
            cfg.wrap = crate::refimpl::rgzh::Wrap::Raw;
            cfg.wbits = wbits.max(9).min(15);
            let data = gen_data(&mut t, cfg.wbits, 100_000);
            bytes = deflate_oneshot::<Ng>(&cfg, &data, None).unwrap_or_default();
            class = if cfg.wbits <= wbits { "encoder output valid for this window" } else { "encoder output (safety only)" };
            if cfg.wbits <= wbits {
                expect_out = Some(data);
            }
        }
        11 | 12 | 13 => {
            let go = GenOpts { max_dist: 32768, max_out: 20_000, dict: &[], fault: Fault::None, max_blocks: 4 };
            let g = rgen::gen_raw(&mut t, &go);
            let mut b = g.bytes;
            let other = t.bytes(6);
            rgen::mutate(&mut t, &mut b, &other);
            bytes = b;
            class = "mutated (safety only)";
        }
        _ => {
            let n = t.below(80);
            bytes = t.bytes(n);
            class = "noise (safety only)";
        }
    }
    // ---- the schedule ----------------------------------------------------------------------
    let nsl = t.below(10);
    let mut slices: Vec<usize> = (0..nsl).map(|_| t.pick(&[1usize, 1, 2, 3, 7, 15, 16, 100, 1000, 0, 4096])).collect();
    let style = t.below(4);
    if style == 0 {
        slices = vec![1; bytes.len() + 2];
    } else if style == 1 {
        slices.clear(); // everything at once
    }
    let abort_at = if t.chance(50) { Some(1 + t.below(6)) } else { None };
    let pre = if t.chance(60) { t.below(bytes.len().min(40) + 1) } else { 0 };
    let left_window = t.chance(64);
    let early_end = slices.iter().any(|&s| s == 0);
    // ---- reference verdict --------------------------------------------------------------------
    let checked = expect_out.is_some();
    let refd = if checked { Some(inflate_raw(&bytes, 0, &DecOpts::lenient())) } else { None };
    ARENAS.with(|ar| {
        // window: exactly 1<<bits bytes, ending at a guard page (or starting right after one)
        let wa = &ar.aux[0];
        let win = if left_window { wa.start() } else { wa.right(w) };
        wa.fill(0xB7);
        let data_arena = &ar.inp;
        let n = bytes.len().min(data_arena.cap);
        let dp = data_arena.put_right(&bytes[..n]);
        let mut c = Ctxt { data: dp, len: n, pos: pre, slices: slices.clone(), si: 0, in_calls: 0, out_calls: 0, out: Vec::new(), abort_at, stage: [&ar.aux[1], &ar.aux[2]], ended_input: false, win_lo: win as usize, win_hi: win as usize + w, bad_out_ptr: false };
        let mut strm = zs();
        let rc0 = unsafe { Rs::inflateBackInit(&mut strm, wbits as c_int, win) };
        if rc0 != Z_OK {
            o.fail("inflateBackInit/status", format!("inflateBackInit(windowBits {}) returned {}", wbits, rc_name(rc0)));
            return;
        }
        // initial input handed over through next_in/avail_in
        let prep = ar.dict.put_right(&bytes[..pre]);
        strm.next_in = if pre > 0 { prep } else { core::ptr::null() };
        strm.avail_in = pre as u32;
        let rc = unsafe { Rs::inflateBack(&mut strm, Some(in_cb), &mut c as *mut Ctxt as *mut c_void, Some(out_cb), &mut c as *mut Ctxt as *mut c_void) };
        let next_in_null = strm.next_in.is_null();
        let left_over = strm.avail_in as usize;
        let erc = unsafe { Rs::inflateBackEnd(&mut strm) };
        // ---- safety oracles (all inputs) -------------------------------------------------------
        // canaries beside the window (inside the arena): bytes before (right-aligned) / after (left-aligned)
        let canary_ok = unsafe {
            if left_window {
                core::slice::from_raw_parts(win.add(w), 64.min(wa.cap - w)).iter().all(|&b| b == 0xB7)
            } else {
                core::slice::from_raw_parts(win.sub(64.min(wa.cap - w)), 64.min(wa.cap - w)).iter().all(|&b| b == 0xB7)
            }
        };
        if !canary_ok && wa.cap > w {
            o.fail("inflateBack/write-outside-window", format!("bytes next to the {}-byte window buffer were modified ({})", w, class));
            return;
        }
        if c.bad_out_ptr {
            o.fail("inflateBack/out-pointer-outside-window", "out() was handed a region outside the caller's window".to_string());
            return;
        }
        if !matches!(rc, Z_STREAM_END | Z_DATA_ERROR | Z_BUF_ERROR) {
            o.fail("inflateBack/undocumented-status", format!("inflateBack returned {} ({})", rc, class));
            return;
        }
        if erc != Z_OK {
            o.fail("inflateBackEnd/status", format!("inflateBackEnd returned {}", rc_name(erc)));
            return;
        }
        if c.in_calls > 3_000_000 {
            o.fail("inflateBack/in-callback-unbounded", "in() was called more than 3000000 times".to_string());
            return;
        }
        if c.out.len() as u64 > 1032 * (n as u64) + 1032 + w as u64 {
            o.fail("inflateBack/expansion-bound", format!("{} bytes handed to out() from {} input bytes", c.out.len(), n));
            return;
        }
        // ---- semantic oracle (streams valid for the window / non-distance faults) -------------------
        let aborted = abort_at.map_or(false, |a| c.out_calls >= a);
        if let Some(r) = &refd {
            let exp = expect_out.as_ref().unwrap();
            // cross-check construction vs reference decoder
            let ref_ok = match &r.verdict {
                Verdict::Valid => r.out == *exp,
                Verdict::Invalid { .. } => r.out == *exp || class.starts_with("encoder"),
                _ => true,
            };
            if !ref_ok {
                o.internal = Some(format!("C19: reference decoder disagrees with construction ({:?}, {} vs {} bytes)", r.verdict, r.out.len(), exp.len()));
                return;
            }
            if aborted && rc == Z_DATA_ERROR && matches!(r.verdict, Verdict::Invalid { .. }) {
                // the final flush of pending output happens after the error was detected; zlib keeps Z_DATA_ERROR
                if !r.out.starts_with(&c.out[..c.out.len().min(r.out.len())]) {
                    o.fail("inflateBack/output-before-error", "bytes handed to out() before the data error are not a prefix of what the stream encodes".to_string());
                    return;
                }
            } else if aborted {
                if rc != Z_BUF_ERROR || next_in_null {
                    // input may also have run out in the same call chain; accept BUF_ERROR with NULL only if input ended
                    if !(rc == Z_BUF_ERROR && c.ended_input) {
                        o.fail("inflateBack/abort-status", format!("out() aborted at call {} but inflateBack returned {} with next_in {}", c.out_calls, rc_name(rc), if next_in_null { "NULL" } else { "non-NULL" }));
                        return;
                    }
                }
                if !r.out.starts_with(&c.out[..c.out.len().min(r.out.len())]) || c.out.len() > r.out.len() {
                    o.fail("inflateBack/output-before-abort", format!("the {} bytes handed to out() before the abort are not a prefix of what the stream encodes", c.out.len()));
                    return;
                }
            } else {
                match &r.verdict {
                    Verdict::Valid if !c.ended_input || c.pos + 0 >= r.end_byte() => {
                        // enough input was delivered unless the callback ended early
                        let delivered_all = c.pos >= r.end_byte();
                        if delivered_all || rc == Z_STREAM_END {
                            if rc != Z_STREAM_END {
                                o.fail("inflateBack/valid-stream-not-ended", format!("valid stream for a {}-byte window: inflateBack returned {} (next_in {}) after {} of {} output bytes; slices {:?} pre {}", w, rc_name(rc), if next_in_null { "NULL" } else { "non-NULL" }, c.out.len(), r.out.len(), &slices[..slices.len().min(8)], pre));
                                return;
                            }
                            if c.out != r.out {
                                let at = c.out.iter().zip(r.out.iter()).position(|(a, b)| a != b).unwrap_or(c.out.len().min(r.out.len()));
                                o.fail("inflateBack/output-differs", format!("bytes handed to out() differ from what the stream encodes: {} vs {} bytes, first difference at {} (window {})", c.out.len(), r.out.len(), at, w));
                                return;
                            }
                            // unused input: next_in/avail_in at the first unused byte
                            let consumed = c.pos - left_over;
                            if consumed != r.end_byte() {
                                o.fail("inflateBack/unused-input", format!("Z_STREAM_END with {} input bytes accounted as consumed, the stream occupies {}", consumed, r.end_byte()));
                                return;
                            }
                        }
                    }
                    Verdict::Invalid { reason, .. } => {
                        let delivered = c.pos >= n || !c.ended_input;
                        if delivered && rc != Z_DATA_ERROR {
                            o.fail("inflateBack/invalid-stream-accepted", format!("stream with fault '{}' : inflateBack returned {} after {} output bytes", reason, rc_name(rc), c.out.len()));
                            return;
                        }
                        if rc == Z_DATA_ERROR && !r.out.starts_with(&c.out[..c.out.len().min(r.out.len())]) {
                            o.fail("inflateBack/output-before-error", "bytes handed to out() before the data error are not a prefix of what the stream encodes".to_string());
                            return;
                        }
                    }
                    Verdict::Truncated | Verdict::Valid => {
                        if c.ended_input || c.pos >= n {
                            if rc == Z_STREAM_END && !matches!(r.verdict, Verdict::Valid) {
                                o.fail("inflateBack/truncated-stream-ended", "inflateBack reported stream end on a truncated stream".to_string());
                                return;
                            }
                            if rc == Z_BUF_ERROR && !next_in_null {
                                o.fail("inflateBack/exhausted-next_in", "input exhausted (in() returned 0) but strm.next_in is not NULL".to_string());
                                return;
                            }
                        }
                    }
                    _ => {}
                }
            }
        }
        o.class(class);
        if c.out.len() > w {
            o.class("output wraps the window (>= 2 out() calls)");
        }
        if c.in_calls >= 3 {
            o.class(">= 3 input slices");
        }
        if aborted {
            o.class("out() aborted");
        }
        if early_end && c.ended_input {
            o.class("input ended early (in() returned 0)");
        }
        if wbits < 12 {
            o.class("window smaller than a page");
        }
        if c.out.len() > w || c.in_calls >= 3 || aborted || c.ended_input {
            let mut fp = Fp::new();
            fp.bytes(&bytes).add(wbits as u64).bytes(format!("{:?}{:?}{}", slices, abort_at, pre).as_bytes());
            o.nontrivial = Some(fp.0);
            if ctx.want_sample {
                o.sample = Some(J::obj().set("class", J::s(class)).set("windowBits", J::U(wbits as u64)).set("bytes", J::s(hex_cut(&bytes, 32))).set("len", J::U(bytes.len() as u64)).set("slices", J::s(format!("{:?}", &slices[..slices.len().min(10)]))).set("abort_at", J::s(format!("{:?}", abort_at))).set("initial_avail_in", J::U(pre as u64)).set("result", J::s(format!("{} after {} in() / {} out() calls, {} bytes out", rc_name(rc), c.in_calls, c.out_calls, c.out.len()))));
            }
        }
    });
    o
}

pub fn property() -> Property {
    Property { id: "C19", rule: RULE, phases: vec![Phase::Prop { name: "inflateBack over byte strings x callback schedules", f: case, quick: 900_000, thorough: 8_000_000, max_tape: 260 }] }
}
