//! C20 — gzip header metadata written faithfully, captured within announced capacities.
use crate::api::*;
use crate::edef::*;
use crate::einf::*;
use crate::gen::*;
use crate::json::J;
use crate::props::c05::verify_output;
use crate::refimpl::rgen::{self, gen_gz_fields, Fault, GenOpts};
use crate::refimpl::rgzh::Wrap;
use crate::runner::*;
use crate::tape::{Fp, Tape};

pub const RULE: &str = "write side: tape -> gz_header{text, time, os 0..255, extra 0..65535 bytes or NULL, name/comment 0..65535 bytes or NULL, hcrc} x memLevel (pending buffer 512 B .. 128 KiB, i.e. smaller or larger than the fields) x level/strategy (XFL) x deflate schedule with output chunks down to 1 byte, optionally with deflateCopy-and-continue steps (also while the header is half written); oracle = RFC 1952 parse of the emitted header equals the supplied fields bit for bit (FLG, MTIME, XFL rule, OS, XLEN+extra, NUL-terminated name/comment, CRC16 over the header bytes) and the body still decodes to the input. read side: tape -> R-GEN gzip stream with every flag combination and field sizes x fresh stream or stream reused (part of another gzip stream, abandoned anywhere, then inflateReset) x input chunkings (1-byte, splits inside every field) x (extra_max, name_max, comm_max) in {NULL, 0, 1, exact, exact+-1, larger} with capture buffers ending at guard pages; oracle after inflate: text/time/xflags/os/extra_len/hcrc equal the stream's, extra/name/comment prefixes equal up to the capacity, absent fields have NULL pointers, done is 0 while total_in < header length, 1 once data flows, -1 for a zlib stream in auto mode. Non-trivial = header larger than the pending buffer (write) or a field split across >= 2 calls with capacity < field length (read); distinct by case fingerprint.";

fn write_case(t: &mut Tape, ctx: &Ctx, o: &mut Outcome, copy: Option<u8>) {
    let mut po = PlanOpts::standard();
    po.allow_gz_header = false;
    po.max_len = 20_000;
    let mut plan = gen_plan(t, &po);
    plan.cfg.wrap = Wrap::Gzip;
    if plan.cfg.wbits == 8 {
        plan.cfg.wbits = 9;
    }
    if t.chance(128) {
        plan.cfg.mem_level = t.pick(&[1, 1, 2, 3]);
    }
    let f = gen_gz_fields(t, true);
    plan.gz = Some(f.clone());
    if let Some(b) = copy {
        // deflateCopy while the header is (perhaps) half written, continue on the copy
        crate::edef::apply_copy(&mut plan, b);
        if b & 2 == 2 {
            plan.ops.insert(0, DefOp::Deflate { in_chunk: 0, out_chunk: [1usize, 7, 100, 300][(b as usize >> 2) & 3], flush: Z_NO_FLUSH });
            plan.ops.insert(1, DefOp::CopySwap);
        }
        o.class("write: deflateCopy-and-continue (possibly inside the header)");
    }
    let hdr_len = rgen::gzip_header_bytes(&f).len();
    ARENAS.with(|ar| {
        let run = run_deflate::<Rs>(&plan, ar);
        if run.init_rc != Z_OK || !run.finished {
            o.class("session did not finish (see C06)");
            return;
        }
        if run.header_rc != Some(Z_OK) {
            o.fail("deflateSetHeader/status", format!("deflateSetHeader on a fresh gzip stream returned {:?}", run.header_rc));
            return;
        }
        if let Err((sig, msg)) = verify_output(&run.out, &plan, run.header_level, run.header_strategy, true) {
            if sig.starts_with("gzhead/") || sig.starts_with("header/") || sig.starts_with("body/") || sig.starts_with("trailer/") {
                o.fail(format!("write/{}", sig), format!("{}; {} header {} bytes [{}]", msg, plan.cfg.describe(), hdr_len, plan.describe_ops()));
                return;
            }
        }
        let pending = 4usize << (plan.cfg.mem_level + 6);
        if hdr_len > pending {
            o.class("write: header larger than pending buffer");
        }
        let small_out = run.calls.iter().filter(|c| c.avail_out <= 8 && c.dout > 0).count() >= 4;
        if small_out {
            o.class("write: tiny output chunks");
        }
        o.class("write side");
        if hdr_len > pending || (small_out && hdr_len > 64) {
            let mut fp = Fp::new();
            fp.bytes(plan.cfg.describe().as_bytes()).bytes(&rgen::gzip_header_bytes(&f)).bytes(plan.describe_ops().as_bytes());
            o.nontrivial = Some(fp.0);
            if ctx.want_sample {
                o.sample = Some(J::obj().set("side", J::s("write")).set("config", J::s(plan.cfg.describe())).set("header_len", J::U(hdr_len as u64)).set("pending_buf", J::U(pending as u64)).set("extra", J::I(f.extra.as_ref().map_or(-1, |e| e.len() as i64))).set("name", J::I(f.name.as_ref().map_or(-1, |e| e.len() as i64))).set("comment", J::I(f.comment.as_ref().map_or(-1, |e| e.len() as i64))).set("hcrc", J::B(f.hcrc)).set("schedule", J::s(plan.describe_ops())));
            }
        }
    });
}

fn cap_for(t: &mut Tape, len: Option<usize>, with_nul: bool) -> Option<u32> {
    let l = len.unwrap_or(0) + if with_nul { 1 } else { 0 };
    let c = match t.below(9) {
        0 => return None,
        1 => 0,
        2 => 1,
        3 => l,
        4 => l + 1,
        5 => l.saturating_sub(1),
        6 => l / 2,
        7 => l + 100,
        _ => 70_000,
    };
    Some(c.min(100_000) as u32)
}

fn read_case(t: &mut Tape, ctx: &Ctx, o: &mut Outcome) {
    let zlib_instead = t.chance(16);
    let f = gen_gz_fields(t, t.remaining() % 3 != 0);
    let go = GenOpts { max_dist: 32768, max_out: 3000, dict: &[], fault: Fault::None, max_blocks: 3 };
    let g = rgen::gen_raw(t, &go);
    let bytes = if zlib_instead { rgen::zlib_wrap(7, 2, None, &g.bytes, &g.out) } else { rgen::gzip_wrap(&f, &g.bytes, &g.out) };
    let hlen = if zlib_instead { 2 } else { rgen::gzip_header_bytes(&f).len() };
    let em = cap_for(t, f.extra.as_ref().map(|e| e.len()), false);
    let nm = cap_for(t, f.name.as_ref().map(|e| e.len()), true);
    let cm = cap_for(t, f.comment.as_ref().map(|e| e.len()), true);
    // input chunking: splits inside the header
    let style = t.below(5);
    let sched = match style {
        0 => InfSchedule { steps: vec![InfStep { in_chunk: 1, out_chunk: 1 << 16, flush: Z_NO_FLUSH }], cycles: hlen + 8, in_right: true, out_right: true, tail_in: usize::MAX, tail_out: 1 << 20 },
        1 => {
            let cut = t.below(hlen + 1);
            InfSchedule { steps: vec![InfStep { in_chunk: cut, out_chunk: 1 << 16, flush: t.pick(&INF_FLUSHES) }], cycles: 1, in_right: true, out_right: true, tail_in: usize::MAX, tail_out: 1 << 20 }
        }
        2 => {
            let a = t.pick(&[2usize, 3, 7, 16, 100, 1000]);
            InfSchedule { steps: vec![InfStep { in_chunk: a, out_chunk: 1 << 16, flush: Z_NO_FLUSH }], cycles: hlen / a + 4, in_right: true, out_right: true, tail_in: usize::MAX, tail_out: 1 << 20 }
        }
        3 => InfSchedule::one_shot(),
        _ => gen_inf_schedule(t),
    };
    let auto = zlib_instead || t.bool();
    // a reused stream: first part of another gzip stream (abandoned mid-header, mid stored block or mid-match with
    // a small output buffer), then inflateReset - the capture must be exactly that of a fresh stream
    let reuse = t.chance(90);
    let pre_bytes: Vec<u8> = if reuse {
        let big2 = t.bool();
        let f2 = gen_gz_fields(t, big2);
        let go2 = GenOpts { max_dist: 32768, max_out: 3000, dict: &[], fault: Fault::None, max_blocks: 3 };
        let g2 = rgen::gen_raw(t, &go2);
        rgen::gzip_wrap(&f2, &g2.bytes, &g2.out)
    } else {
        Vec::new()
    };
    let pre = (1 + t.below(3), t.pick(&[1usize, 7, 30, 100, 1000, 100_000]), t.pick(&[0usize, 1, 10, 100, 257, 5000]));
    ARENAS.with(|ar| {
        let mut io = InfOpts::new(if auto { 47 } else { 31 });
        if reuse {
            io.prehistory = Some(Prehistory { bytes: &pre_bytes, calls: pre.0, in_chunk: pre.1, out_chunk: pre.2, failed_sync: false });
        }
        io.capture = Some(Capture { extra_max: em, name_max: nm, comm_max: cm, arenas: &ar.aux });
        let r = run_inflate::<Rs>(&bytes, &sched, &io, ar);
        for (tag, sig, msg) in &r.violations {
            if *tag == "C14" {
                o.fail(sig.clone(), msg.clone());
                return;
            }
        }
        let h = match &r.head {
            Some(h) => h,
            None => return,
        };
        if h.get_header_rc != Z_OK {
            o.fail("read/inflateGetHeader-status", format!("inflateGetHeader on a gzip/auto stream returned {}", h.get_header_rc));
            return;
        }
        if r.status != Status::StreamEnd {
            o.fail("read/stream-not-accepted", format!("valid stream ended with {} (msg {:?}) while header capture was enabled [{}]", status_name(r.status), r.msg, sched.describe()));
            return;
        }
        if zlib_instead {
            if h.head.done != -1 {
                o.fail("read/done-for-zlib-stream", format!("zlib stream in auto-detect mode: head.done = {} (expected -1)", h.head.done));
            }
            o.class("read: zlib stream in auto mode (done = -1)");
            return;
        }
        let caps = format!("extra_max {:?} name_max {:?} comm_max {:?}", em, nm, cm);
        if h.head.done != 1 {
            o.fail("read/done-not-set", format!("stream ended but head.done = {} [{}]", h.head.done, caps));
            return;
        }
        for (ti, d) in &h.done_trace {
            if *d == 1 && (*ti as usize) < hlen {
                o.fail("read/done-too-early", format!("head.done = 1 after only {} input bytes; the header is {} bytes [{}; {}]", ti, hlen, caps, sched.describe()));
                return;
            }
            if *d != 0 && *d != 1 {
                o.fail("read/done-value", format!("head.done = {} on a gzip stream", d));
                return;
            }
        }
        let hd = &h.head;
        if (hd.text != 0) != f.text || hd.time as u32 != f.mtime || hd.xflags != f.xfl as i32 || hd.os != f.os as i32 || (hd.hcrc != 0) != f.hcrc {
            o.fail("read/fixed-fields", format!("captured text {} time {} xflags {} os {} hcrc {}; stream has text {} time {} xfl {} os {} hcrc {}", hd.text, hd.time, hd.xflags, hd.os, hd.hcrc, f.text, f.mtime, f.xfl, f.os, f.hcrc));
            return;
        }
        // extra
        match (&f.extra, em) {
            (Some(e), Some(m)) => {
                if !h.extra_ptr_set {
                    o.fail("read/extra-pointer-cleared", "extra field present in the stream but head.extra was set to NULL".to_string());
                    return;
                }
                if hd.extra_len as usize != e.len() {
                    o.fail("read/extra_len", format!("extra_len {} but the stream's extra field has {} bytes", hd.extra_len, e.len()));
                    return;
                }
                let n = e.len().min(m as usize);
                if h.extra[..n] != e[..n] {
                    let at = h.extra[..n].iter().zip(e.iter()).position(|(a, b)| a != b).unwrap_or(0);
                    o.fail("read/extra-content", format!("captured extra differs from the stream at byte {} (field {} bytes, extra_max {}) [{}]", at, e.len(), m, sched.describe()));
                    return;
                }
            }
            (Some(e), None) => {
                if hd.extra_len as usize != e.len() && hd.extra_len != 0 {
                    // zlib only sets extra_len when a head structure is installed; it is installed here
                    o.fail("read/extra_len", format!("extra_len {} but the stream's extra field has {} bytes (extra pointer NULL)", hd.extra_len, e.len()));
                    return;
                }
            }
            (None, Some(_)) => {
                if h.extra_ptr_set {
                    o.fail("read/absent-extra-not-null", "stream has no extra field but head.extra is still non-NULL".to_string());
                    return;
                }
            }
            _ => {}
        }
        for (which, field, max, ptr_set, got) in [("name", &f.name, nm, h.name_ptr_set, &h.name), ("comment", &f.comment, cm, h.comm_ptr_set, &h.comment)] {
            match (field, max) {
                (Some(v), Some(m)) => {
                    if !ptr_set {
                        o.fail(format!("read/{}-pointer-cleared", which), format!("{} present in the stream but the pointer was set to NULL", which));
                        return;
                    }
                    let mut want = v.clone();
                    want.push(0);
                    let n = want.len().min(m as usize);
                    if got[..n] != want[..n] {
                        let at = got[..n].iter().zip(want.iter()).position(|(a, b)| a != b).unwrap_or(0);
                        o.fail(format!("read/{}-content", which), format!("captured {} differs from the stream at byte {} (field {} bytes + NUL, capacity {}) [{}]", which, at, v.len(), m, sched.describe()));
                        return;
                    }
                }
                (None, Some(_)) => {
                    if ptr_set {
                        o.fail(format!("read/absent-{}-not-null", which), format!("stream has no {} but the pointer is still non-NULL", which));
                        return;
                    }
                }
                _ => {}
            }
        }
        o.class("read side");
        if reuse {
            o.class("read: stream reused after an abandoned gzip stream + inflateReset");
        }
        let truncated = f.extra.as_ref().map_or(false, |e| em.map_or(false, |m| (m as usize) < e.len())) || f.name.as_ref().map_or(false, |e| nm.map_or(false, |m| (m as usize) < e.len() + 1)) || f.comment.as_ref().map_or(false, |e| cm.map_or(false, |m| (m as usize) < e.len() + 1));
        if truncated {
            o.class("read: capacity < field length");
        }
        let split = r.ncalls >= 3 && style != 3;
        if split {
            o.class("read: header split across calls");
        }
        if em.is_none() || nm.is_none() || cm.is_none() {
            o.class("read: NULL capture pointer");
        }
        if truncated && split {
            let mut fp = Fp::new();
            fp.bytes(&bytes[..hlen.min(bytes.len())]).bytes(caps.as_bytes()).bytes(sched.describe().as_bytes());
            o.nontrivial = Some(fp.0);
            if ctx.want_sample {
                o.sample = Some(J::obj().set("side", J::s("read")).set("header_len", J::U(hlen as u64)).set("fields", J::s(format!("extra {:?} name {:?} comment {:?} hcrc {}", f.extra.as_ref().map(|e| e.len()), f.name.as_ref().map(|e| e.len()), f.comment.as_ref().map(|e| e.len()), f.hcrc))).set("capacities", J::s(caps)).set("schedule", J::s(sched.describe())).set("calls", J::U(r.ncalls as u64)));
            }
        }
    });
}

pub fn case(tape: &[u8], ctx: &Ctx) -> Outcome {
    let mut o = Outcome::new();
    let (tape, copy) = crate::edef::split_copy_suffix(tape);
    let mut t = Tape::new(tape);
    if t.bool() {
        write_case(&mut t, ctx, &mut o, copy);
    } else {
        read_case(&mut t, ctx, &mut o);
    }
    o
}

pub fn property() -> Property {
    Property { id: "C20", rule: RULE, phases: vec![Phase::Prop { name: "gzip header write and capture", f: case, quick: 400_000, thorough: 5_000_000, max_tape: 300 }] }
}
