use crate::runner::Property;
pub mod c02;
pub mod c03;
pub mod c04;
pub mod c08;
pub mod c09;

pub fn all() -> Vec<Property> {
    vec![c02::property(), c03::property(), c04::property(), c08::property(), c09::property()]
}
pub fn get(id: &str) -> Option<Property> {
    all().into_iter().find(|p| p.id == id)
}
