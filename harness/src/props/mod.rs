use crate::runner::Property;
pub mod c03;
pub mod c09;

pub fn all() -> Vec<Property> {
    vec![c03::property(), c09::property()]
}
pub fn get(id: &str) -> Option<Property> {
    all().into_iter().find(|p| p.id == id)
}
