pub mod rck;
