pub mod rck;
pub mod rdec;
pub mod rgen;
pub mod rgzh;
