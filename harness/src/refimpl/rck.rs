//! R-CK: checksums straight from the definitions (RFC 1950 Adler-32, RFC 1952 / IEEE 802.3 CRC-32).
//! Deliberately slow and obvious; shares no code with zlib-rs.

pub const BASE: u32 = 65521;

/// Adler-32 continued from `start` (any u32: halves are taken mod 2^16, as the definition of
/// "continue from a value" only makes sense for valid values, callers pass valid ones).
pub fn adler32(start: u32, data: &[u8]) -> u32 {
    let mut a = start & 0xffff;
    let mut b = start >> 16;
    for &x in data {
        a = (a + x as u32) % BASE;
        b = (b + a) % BASE;
    }
    (b << 16) | a
}

/// bit-at-a-time CRC-32, reflected polynomial 0xEDB88320, continued from `start`
pub fn crc32(start: u32, data: &[u8]) -> u32 {
    let mut c = !start;
    for &x in data {
        c ^= x as u32;
        for _ in 0..8 {
            c = if c & 1 != 0 { (c >> 1) ^ 0xEDB88320 } else { c >> 1 };
        }
    }
    !c
}

/// table-driven variant (table built from the bitwise definition) for bulk oracle use
pub struct CrcTab([u32; 256]);
impl CrcTab {
    pub fn new() -> Self {
        let mut t = [0u32; 256];
        for i in 0..256u32 {
            let mut c = i;
            for _ in 0..8 {
                c = if c & 1 != 0 { (c >> 1) ^ 0xEDB88320 } else { c >> 1 };
            }
            t[i as usize] = c;
        }
        CrcTab(t)
    }
    pub fn crc(&self, start: u32, data: &[u8]) -> u32 {
        let mut c = !start;
        for &x in data {
            c = self.0[((c ^ x as u32) & 0xff) as usize] ^ (c >> 8);
        }
        !c
    }
}

pub fn crc32_fast(start: u32, data: &[u8]) -> u32 {
    use std::sync::OnceLock;
    static T: OnceLock<CrcTab> = OnceLock::new();
    T.get_or_init(CrcTab::new).crc(start, data)
}

/// faster Adler for bulk oracle use (modulo every 256 bytes: 256*255*... stays < 2^32)
pub fn adler32_fast(start: u32, data: &[u8]) -> u32 {
    let mut a = (start & 0xffff) as u64;
    let mut b = (start >> 16) as u64;
    for ch in data.chunks(2048) {
        for &x in ch {
            a += x as u64;
            b += a;
        }
        a %= BASE as u64;
        b %= BASE as u64;
    }
    ((b as u32) << 16) | a as u32
}

// ---- GF(2) polynomial arithmetic for combine, from the definition -------------
// CRC register r (reflected): bit 31 is the coefficient of x^0 ... we work with the
// mathematical statement instead:  crc(A||B) = crc(A) advanced by |B| zero bytes XOR crc(B)
// (for the "pure" CRC without pre/post conditioning the advance is multiplication by x^(8n));
// with zlib's conditioning the identity crc(A||B) = shift(crc(A), n) ^ crc(B) holds where
// shift(c, n) = crc of n zero bytes run on register c without conditioning.

/// multiply a(x)*b(x) mod p(x), reflected representation (bit 31 = x^0)
pub fn multmodp(a: u32, mut b: u32) -> u32 {
    let mut m: u32 = 1 << 31;
    let mut p: u32 = 0;
    loop {
        if a & m != 0 {
            p ^= b;
            if a & (m - 1) == 0 {
                break;
            }
        }
        m >>= 1;
        b = if b & 1 != 0 { (b >> 1) ^ 0xEDB88320 } else { b >> 1 };
        if m == 0 {
            break;
        }
    }
    p
}

/// x^(8*n) mod p(x) by square and multiply, n arbitrary u64 (8n computed in u128 exponent bits)
pub fn x8nmodp(n: u64) -> u32 {
    // exponent e = 8*n as u128
    let mut e: u128 = (n as u128) * 8;
    let mut result: u32 = 1 << 31; // x^0
    let mut base: u32 = 1 << 30; // x^1
    while e != 0 {
        if e & 1 != 0 {
            result = multmodp(base, result);
        }
        base = multmodp(base, base);
        e >>= 1;
    }
    result
}

/// crc32 combine from the definition
pub fn crc32_combine(crc1: u32, crc2: u32, len2: u64) -> u32 {
    multmodp(x8nmodp(len2), crc1) ^ crc2
}

/// Adler-32 combine from the definition: A' = a1 + a2 - 1, B' = b1 + b2 + len2*(a1 - 1)   (mod BASE)
pub fn adler32_combine(ad1: u32, ad2: u32, len2: u64) -> u32 {
    let m = BASE as u64;
    let a1 = (ad1 & 0xffff) as u64 % m;
    let b1 = (ad1 >> 16) as u64 % m;
    let a2 = (ad2 & 0xffff) as u64 % m;
    let b2 = (ad2 >> 16) as u64 % m;
    let l = len2 % m;
    let a = (a1 + a2 + m - 1) % m;
    let b = (b1 + b2 + l * ((a1 + m - 1) % m)) % m;
    ((b as u32) << 16) | a as u32
}

#[cfg(test)]
mod t {
    use super::*;
    #[test]
    fn known_vectors() {
        assert_eq!(crc32(0, b"123456789"), 0xCBF43926);
        assert_eq!(adler32(1, b"Wikipedia"), 0x11E60398);
        let a = b"hello, ";
        let b = b"world!!";
        let mut ab = a.to_vec();
        ab.extend_from_slice(b);
        assert_eq!(crc32_combine(crc32(0, a), crc32(0, b), b.len() as u64), crc32(0, &ab));
        assert_eq!(adler32_combine(adler32(1, a), adler32(1, b), b.len() as u64), adler32(1, &ab));
        assert_eq!(crc32_fast(5, &ab), crc32(5, &ab));
        assert_eq!(adler32_fast(0x00010002, &ab), adler32(0x00010002, &ab));
    }
}
