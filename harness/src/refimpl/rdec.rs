//! R-DEC: bit-exact RFC 1951 decoder written from the RFC and the zlib manual.
//! Shares no code with zlib-rs. Two modes:
//!  * lenient = zlib's documented non-strict reading (what C03 names),
//!  * strict  = what an encoder must satisfy (C05/C11): window limit, complete codes, ...

#[derive(Clone, Debug, PartialEq, Eq)]
pub enum Verdict {
    Valid,
    Invalid { bit_pos: usize, reason: &'static str },
    Truncated,
    /// output limit of the oracle reached (never a verdict about the stream)
    TooBig,
}

#[derive(Clone, Debug, Default)]
pub struct BlockInfo {
    pub btype: u8,
    pub start_bit: usize,
    pub last: bool,
    /// stored block whose 3 header bits did not start at bit 0 of a byte
    pub stored_unaligned: bool,
    pub lit_max_len: u8,
    pub dist_max_len: u8,
    pub n_dist_codes: u16,
    pub n_lit_codes: u16,
    pub matches: u32,
    pub literals: u32,
    pub out_start: usize,
    pub out_end: usize,
}

#[derive(Clone, Debug)]
pub struct DecResult {
    pub verdict: Verdict,
    pub out: Vec<u8>,
    /// bit position just after the final block's end-of-block (valid streams)
    pub end_bit: usize,
    /// output length at `end_bit` (output of complete blocks only)
    pub complete_out: usize,
    pub max_distance: usize,
    /// largest (distance - bytes of stream output available), i.e. reach into the dictionary
    pub max_reach_before_start: usize,
    pub blocks: Vec<BlockInfo>,
    pub needs_sublevel: bool,
    pub degenerate_code: bool,
    pub used_len_285: bool,
    pub used_len_284_31: bool,
}

impl DecResult {
    pub fn end_byte(&self) -> usize {
        (self.end_bit + 7) / 8
    }
    pub fn is_valid(&self) -> bool {
        self.verdict == Verdict::Valid
    }
}

#[derive(Clone, Debug)]
pub struct DecOpts {
    pub strict: bool,
    /// strict: maximum back-reference distance (announced window size)
    pub window: usize,
    /// history available before the first output byte (preset dictionary), content
    pub dict: Vec<u8>,
    pub max_out: usize,
    /// stop (Valid) after the first block boundary at or after this many blocks; 0 = run to final block
    pub stop_after_blocks: usize,
}

impl DecOpts {
    pub fn lenient() -> Self {
        DecOpts { strict: false, window: 32768, dict: Vec::new(), max_out: 1 << 26, stop_after_blocks: 0 }
    }
    pub fn strict(window: usize) -> Self {
        DecOpts { strict: true, window, dict: Vec::new(), max_out: 1 << 26, stop_after_blocks: 0 }
    }
}

pub struct Bits<'a> {
    pub d: &'a [u8],
    pub pos: usize, // bit position
}

impl<'a> Bits<'a> {
    pub fn new(d: &'a [u8], start_bit: usize) -> Self {
        Bits { d, pos: start_bit }
    }
    #[inline]
    pub fn bit(&mut self) -> Option<u32> {
        let byte = self.pos >> 3;
        if byte >= self.d.len() {
            return None;
        }
        let b = (self.d[byte] >> (self.pos & 7)) & 1;
        self.pos += 1;
        Some(b as u32)
    }
    pub fn bits(&mut self, n: u32) -> Option<u32> {
        let mut v = 0u32;
        for i in 0..n {
            v |= self.bit()? << i;
        }
        Some(v)
    }
    pub fn align(&mut self) {
        self.pos = (self.pos + 7) & !7;
    }
}

/// canonical Huffman code, puff-style (count per length + symbols in order)
pub struct Huff {
    count: [u16; 16],
    symbol: Vec<u16>,
    pub max_len: u8,
    pub n_codes: u16,
    /// sum 2^-len compared with 1: <0 oversubscribed, 0 complete, >0 incomplete
    pub left: i32,
}

impl Huff {
    pub fn new(lens: &[u8]) -> Huff {
        let mut count = [0u16; 16];
        for &l in lens {
            count[l as usize] += 1;
        }
        let n_codes = lens.len() as u16 - count[0];
        let mut left: i32 = 1;
        let mut over = false;
        let mut max_len = 0u8;
        for len in 1..16 {
            left <<= 1;
            left -= count[len] as i32;
            if left < 0 && !over {
                over = true;
            }
            if count[len] > 0 {
                max_len = len as u8;
            }
        }
        let mut offs = [0u16; 16];
        for len in 1..15 {
            offs[len + 1] = offs[len] + count[len];
        }
        let mut symbol = vec![0u16; lens.len()];
        for (s, &l) in lens.iter().enumerate() {
            if l != 0 {
                symbol[offs[l as usize] as usize] = s as u16;
                offs[l as usize] += 1;
            }
        }
        Huff { count, symbol, max_len, n_codes, left: if over { -1 } else { left } }
    }
    /// Ok(Some(sym)), Ok(None) = ran out of input, Err(()) = bit pattern is not a code word
    pub fn decode(&self, b: &mut Bits) -> Result<Option<u16>, ()> {
        let mut code: i32 = 0;
        let mut first: i32 = 0;
        let mut index: i32 = 0;
        for len in 1..=15usize {
            let bit = match b.bit() {
                Some(x) => x as i32,
                None => return Ok(None),
            };
            code |= bit;
            let count = self.count[len] as i32;
            if code - count < first {
                return Ok(Some(self.symbol[(index + (code - first)) as usize]));
            }
            index += count;
            first += count;
            first <<= 1;
            code <<= 1;
            if len as u8 >= self.max_len {
                // no longer codes exist: this pattern is not a code word.
                return Err(());
            }
        }
        Err(())
    }
}

pub const LEN_BASE: [u16; 29] = [3, 4, 5, 6, 7, 8, 9, 10, 11, 13, 15, 17, 19, 23, 27, 31, 35, 43, 51, 59, 67, 83, 99, 115, 131, 163, 195, 227, 258];
pub const LEN_EXTRA: [u8; 29] = [0, 0, 0, 0, 0, 0, 0, 0, 1, 1, 1, 1, 2, 2, 2, 2, 3, 3, 3, 3, 4, 4, 4, 4, 5, 5, 5, 5, 0];
pub const DIST_BASE: [u16; 30] = [1, 2, 3, 4, 5, 7, 9, 13, 17, 25, 33, 49, 65, 97, 129, 193, 257, 385, 513, 769, 1025, 1537, 2049, 3073, 4097, 6145, 8193, 12289, 16385, 24577];
pub const DIST_EXTRA: [u8; 30] = [0, 0, 0, 0, 1, 1, 2, 2, 3, 3, 4, 4, 5, 5, 6, 6, 7, 7, 8, 8, 9, 9, 10, 10, 11, 11, 12, 12, 13, 13];
pub const CLEN_ORDER: [usize; 19] = [16, 17, 18, 0, 8, 7, 9, 6, 10, 5, 11, 4, 12, 3, 13, 2, 14, 1, 15];

pub fn fixed_lit_lens() -> [u8; 288] {
    let mut l = [0u8; 288];
    for i in 0..144 {
        l[i] = 8;
    }
    for i in 144..256 {
        l[i] = 9;
    }
    for i in 256..280 {
        l[i] = 7;
    }
    for i in 280..288 {
        l[i] = 8;
    }
    l
}

macro_rules! need {
    ($e:expr, $res:ident) => {
        match $e {
            Some(v) => v,
            None => {
                $res.verdict = Verdict::Truncated;
                return $res;
            }
        }
    };
}

macro_rules! bad {
    ($res:ident, $pos:expr, $why:expr) => {{
        $res.verdict = Verdict::Invalid { bit_pos: $pos, reason: $why };
        return $res;
    }};
}

/// Decode a raw deflate stream starting at `start_bit` of `data`.
pub fn inflate_raw(data: &[u8], start_bit: usize, opts: &DecOpts) -> DecResult {
    let mut res = DecResult {
        verdict: Verdict::Valid,
        out: Vec::new(),
        end_bit: start_bit,
        complete_out: 0,
        max_distance: 0,
        max_reach_before_start: 0,
        blocks: Vec::new(),
        needs_sublevel: false,
        degenerate_code: false,
        used_len_285: false,
        used_len_284_31: false,
    };
    let mut b = Bits::new(data, start_bit);
    let dict_len = opts.dict.len();
    loop {
        let bstart = b.pos;
        let last = need!(b.bit(), res) == 1;
        let btype = need!(b.bits(2), res) as u8;
        let mut bi = BlockInfo { btype, start_bit: bstart, last, out_start: res.out.len(), ..Default::default() };
        match btype {
            0 => {
                bi.stored_unaligned = bstart & 7 != 0;
                b.align();
                let len = need!(b.bits(16), res);
                let nlen = need!(b.bits(16), res);
                if len != (!nlen & 0xffff) {
                    bad!(res, b.pos - 32, "invalid stored block lengths");
                }
                let byte = b.pos >> 3;
                let avail = data.len().saturating_sub(byte);
                let take = (len as usize).min(avail);
                if res.out.len() + take > opts.max_out {
                    res.verdict = Verdict::TooBig;
                    return res;
                }
                res.out.extend_from_slice(&data[byte..byte + take]);
                b.pos += take * 8;
                if take < len as usize {
                    bi.out_end = res.out.len();
                    res.blocks.push(bi);
                    res.verdict = Verdict::Truncated;
                    return res;
                }
            }
            1 | 2 => {
                let lit: Huff;
                let dist: Huff;
                if btype == 1 {
                    lit = Huff::new(&fixed_lit_lens());
                    dist = Huff::new(&[5u8; 32]);
                    bi.lit_max_len = 9;
                    bi.dist_max_len = 5;
                } else {
                    let hpos = b.pos;
                    let nlen = need!(b.bits(5), res) as usize + 257;
                    let ndist = need!(b.bits(5), res) as usize + 1;
                    let ncode = need!(b.bits(4), res) as usize + 4;
                    if nlen > 286 || ndist > 30 {
                        bad!(res, hpos, "too many length or distance symbols");
                    }
                    let mut cl = [0u8; 19];
                    for i in 0..ncode {
                        cl[CLEN_ORDER[i]] = need!(b.bits(3), res) as u8;
                    }
                    let clh = Huff::new(&cl);
                    // zlib: the code-length code must be complete (even a single code is rejected);
                    // an all-zero set is accepted at this point but can only decode to an error later.
                    if clh.n_codes > 0 && clh.left != 0 {
                        bad!(res, b.pos, "invalid code lengths set");
                    }
                    let mut lens = vec![0u8; nlen + ndist];
                    let mut have = 0usize;
                    while have < nlen + ndist {
                        let sym: u16 = if clh.n_codes == 0 {
                            // zlib's forced-error table entry is read as "length 0, 1 bit" by the
                            // code-lengths loop; the block is rejected later (no end-of-block code)
                            need!(b.bit(), res);
                            0
                        } else {
                            match clh.decode(&mut b) {
                                Ok(Some(s)) => s,
                                Ok(None) => {
                                    res.verdict = Verdict::Truncated;
                                    return res;
                                }
                                Err(()) => bad!(res, b.pos, "invalid code lengths set"),
                            }
                        };
                        if sym < 16 {
                            lens[have] = sym as u8;
                            have += 1;
                        } else {
                            let (prev, rep) = match sym {
                                16 => {
                                    if have == 0 {
                                        bad!(res, b.pos, "invalid bit length repeat");
                                    }
                                    let p = lens[have - 1];
                                    (p, 3 + need!(b.bits(2), res) as usize)
                                }
                                17 => (0, 3 + need!(b.bits(3), res) as usize),
                                _ => (0, 11 + need!(b.bits(7), res) as usize),
                            };
                            if have + rep > nlen + ndist {
                                bad!(res, b.pos, "invalid bit length repeat");
                            }
                            for _ in 0..rep {
                                lens[have] = prev;
                                have += 1;
                            }
                        }
                    }
                    if lens[256] == 0 {
                        bad!(res, b.pos, "invalid code -- missing end-of-block");
                    }
                    lit = Huff::new(&lens[..nlen]);
                    if lit.left < 0 || (lit.left > 0 && lit.max_len != 1) {
                        bad!(res, b.pos, "invalid literal/lengths set");
                    }
                    dist = Huff::new(&lens[nlen..]);
                    if dist.left < 0 || (dist.left > 0 && dist.n_codes > 0 && dist.max_len != 1) {
                        bad!(res, b.pos, "invalid distances set");
                    }
                    if opts.strict {
                        // an encoder must emit complete codes, or the RFC's single-distance-code case,
                        // or no distance code when only literals are used.
                        if lit.left != 0 {
                            bad!(res, b.pos, "strict: incomplete literal/length code");
                        }
                        if dist.left != 0 && dist.n_codes > 1 {
                            bad!(res, b.pos, "strict: incomplete distance code");
                        }
                    }
                    bi.lit_max_len = lit.max_len;
                    bi.dist_max_len = dist.max_len;
                    bi.n_dist_codes = dist.n_codes;
                    bi.n_lit_codes = lit.n_codes;
                    if lit.max_len > 9 || dist.max_len > 6 {
                        res.needs_sublevel = true;
                    }
                    if lit.left != 0 || dist.left != 0 || dist.n_codes <= 1 {
                        res.degenerate_code = true;
                    }
                }
                loop {
                    let spos = b.pos;
                    let sym = match lit.decode(&mut b) {
                        Ok(Some(s)) => s,
                        Ok(None) => {
                            bi.out_end = res.out.len();
                            res.blocks.push(bi);
                            res.verdict = Verdict::Truncated;
                            return res;
                        }
                        Err(()) => bad!(res, spos, "invalid literal/length code"),
                    };
                    if sym < 256 {
                        if res.out.len() + 1 > opts.max_out {
                            res.verdict = Verdict::TooBig;
                            return res;
                        }
                        res.out.push(sym as u8);
                        bi.literals += 1;
                        continue;
                    }
                    if sym == 256 {
                        break;
                    }
                    if sym >= 286 {
                        bad!(res, spos, "invalid literal/length code");
                    }
                    let li = (sym - 257) as usize;
                    let lx = match b.bits(LEN_EXTRA[li] as u32) {
                        Some(v) => v,
                        None => {
                            bi.out_end = res.out.len();
                            res.blocks.push(bi);
                            res.verdict = Verdict::Truncated;
                            return res;
                        }
                    };
                    let len = LEN_BASE[li] as usize + lx as usize;
                    if sym == 285 {
                        res.used_len_285 = true;
                    }
                    if sym == 284 && lx == 31 {
                        res.used_len_284_31 = true;
                    }
                    let dsym = match dist.decode(&mut b) {
                        Ok(Some(s)) => s,
                        Ok(None) => {
                            bi.out_end = res.out.len();
                            res.blocks.push(bi);
                            res.verdict = Verdict::Truncated;
                            return res;
                        }
                        Err(()) => bad!(res, spos, "invalid distance code"),
                    };
                    if dsym >= 30 {
                        bad!(res, spos, "invalid distance code");
                    }
                    let dx = match b.bits(DIST_EXTRA[dsym as usize] as u32) {
                        Some(v) => v,
                        None => {
                            bi.out_end = res.out.len();
                            res.blocks.push(bi);
                            res.verdict = Verdict::Truncated;
                            return res;
                        }
                    };
                    let d = DIST_BASE[dsym as usize] as usize + dx as usize;
                    let avail = res.out.len() + dict_len;
                    if d > avail.min(32768) {
                        bad!(res, spos, "invalid distance too far back");
                    }
                    if opts.strict && d > opts.window {
                        bad!(res, spos, "strict: distance exceeds announced window");
                    }
                    if d > res.max_distance {
                        res.max_distance = d;
                    }
                    if d > res.out.len() && d - res.out.len() > res.max_reach_before_start {
                        res.max_reach_before_start = d - res.out.len();
                    }
                    if res.out.len() + len > opts.max_out {
                        res.verdict = Verdict::TooBig;
                        return res;
                    }
                    for _ in 0..len {
                        let n = res.out.len();
                        let v = if d <= n { res.out[n - d] } else { opts.dict[dict_len - (d - n)] };
                        res.out.push(v);
                    }
                    bi.matches += 1;
                }
            }
            _ => bad!(res, bstart, "invalid block type"),
        }
        bi.out_end = res.out.len();
        res.blocks.push(bi);
        res.end_bit = b.pos;
        res.complete_out = res.out.len();
        if last {
            res.verdict = Verdict::Valid;
            return res;
        }
        if opts.stop_after_blocks != 0 && res.blocks.len() >= opts.stop_after_blocks {
            res.verdict = Verdict::Valid;
            return res;
        }
    }
}
