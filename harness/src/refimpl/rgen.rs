//! R-GEN: ground-truth deflate stream generator (construction, not rejection).
//! Builds raw deflate streams block by block from tape choices and knows the expected
//! output and the exact stream length by construction. Can inject exactly one fault of a
//! named class so the expected verdict is known without running a decoder.
use super::rck;
use super::rdec::{CLEN_ORDER, DIST_BASE, DIST_EXTRA, LEN_BASE, LEN_EXTRA};
use crate::tape::{Tape, Xs};

pub struct BitW {
    pub out: Vec<u8>,
    acc: u64,
    n: u32,
}

impl BitW {
    pub fn new() -> Self {
        BitW { out: Vec::new(), acc: 0, n: 0 }
    }
    pub fn bit_len(&self) -> usize {
        self.out.len() * 8 + self.n as usize
    }
    /// write `n` bits of `v`, least significant first
    pub fn bits(&mut self, v: u32, n: u32) {
        debug_assert!(n <= 32);
        if n == 0 {
            return;
        }
        self.acc |= ((v as u64) & ((1u64 << n) - 1)) << self.n;
        self.n += n;
        while self.n >= 8 {
            self.out.push(self.acc as u8);
            self.acc >>= 8;
            self.n -= 8;
        }
    }
    /// Huffman code: most significant bit first
    pub fn code(&mut self, code: u32, len: u32) {
        for i in (0..len).rev() {
            self.bits((code >> i) & 1, 1);
        }
    }
    pub fn align(&mut self) {
        if self.n > 0 {
            self.out.push(self.acc as u8);
            self.acc = 0;
            self.n = 0;
        }
    }
    pub fn bytes(&mut self, b: &[u8]) {
        debug_assert!(self.n == 0);
        self.out.extend_from_slice(b);
    }
    pub fn finish(mut self) -> Vec<u8> {
        self.align();
        self.out
    }
}

/// canonical codes from lengths (RFC 1951 3.2.2)
pub fn canon_codes(lens: &[u8]) -> Vec<u32> {
    let mut bl_count = [0u32; 16];
    for &l in lens {
        bl_count[l as usize] += 1;
    }
    bl_count[0] = 0;
    let mut next = [0u32; 16];
    let mut code = 0u32;
    for bits in 1..16 {
        code = (code + bl_count[bits - 1]) << 1;
        next[bits] = code;
    }
    let mut codes = vec![0u32; lens.len()];
    for (i, &l) in lens.iter().enumerate() {
        if l != 0 {
            codes[i] = next[l as usize];
            next[l as usize] += 1;
        }
    }
    codes
}

#[derive(Clone, Copy, Debug, PartialEq, Eq)]
pub enum Sym {
    Lit(u8),
    /// length 3..=258, distance 1..=32768; `alt258`: encode length 258 as symbol 284 + 31
    Match { len: u16, dist: u16, alt258: bool },
}

pub fn len_sym(len: u16, alt258: bool) -> (u16, u32, u32) {
    if len == 258 && alt258 {
        return (284, 31, 5);
    }
    if len == 258 {
        return (285, 0, 0);
    }
    let mut i = 27;
    while LEN_BASE[i] > len {
        i -= 1;
    }
    (257 + i as u16, (len - LEN_BASE[i]) as u32, LEN_EXTRA[i] as u32)
}

pub fn dist_sym(dist: u16) -> (u16, u32, u32) {
    let d = dist as u32;
    let mut i = 29;
    while (DIST_BASE[i] as u32) > d {
        i -= 1;
    }
    (i as u16, d - DIST_BASE[i] as u32, DIST_EXTRA[i] as u32)
}

#[derive(Clone, Copy, Debug, PartialEq, Eq)]
pub enum Fault {
    None,
    BlockType3,
    BadNlen,
    Oversubscribed,
    Incomplete,
    Sym286,
    DistSym30,
    DistTooFar,
    MissingEob,
    TooManyLens,
    TooManyDists,
    Repeat16First,
    RepeatPastEnd,
    BadClenCode,
    UnusedCodeUsed,
}

pub const BODY_FAULTS: [Fault; 14] = [
    Fault::BlockType3,
    Fault::BadNlen,
    Fault::Oversubscribed,
    Fault::Incomplete,
    Fault::Sym286,
    Fault::DistSym30,
    Fault::DistTooFar,
    Fault::MissingEob,
    Fault::TooManyLens,
    Fault::TooManyDists,
    Fault::Repeat16First,
    Fault::RepeatPastEnd,
    Fault::BadClenCode,
    Fault::UnusedCodeUsed,
];

#[derive(Clone, Debug, Default)]
pub struct Features {
    pub stored_unaligned: bool,
    pub stored: u32,
    pub fixed: u32,
    pub dynamic: u32,
    pub deep_lit: bool,  // lit/len code longer than 9 bits (second-level table)
    pub deep_dist: bool, // distance code longer than 6 bits
    pub max_code_len: u8,
    pub degenerate: bool, // single distance code / no distance code / EOB-only literal code
    pub len258_alt: bool,
    pub dist_32768: bool,
    pub max_dist: usize,
    pub matches: u32,
    pub dict_reach: bool,
    pub blocks: u32,
    pub empty_blocks: u32,
}

#[derive(Clone, Debug)]
pub struct GenStream {
    pub bytes: Vec<u8>,
    /// expected output of the valid part (for faulted streams: output before the fault)
    pub out: Vec<u8>,
    pub end_bit: usize,
    pub fault: Fault,
    /// whether the fault was actually injected (a requested fault may not fit the generated shape)
    pub faulted: bool,
    pub feat: Features,
}

pub struct GenOpts<'a> {
    pub max_dist: usize,
    pub max_out: usize,
    pub dict: &'a [u8],
    pub fault: Fault,
    pub max_blocks: usize,
}

/// split-tree code length construction: `n` leaves, all depths <= `maxd`, complete code.
/// `bias`: 0 balanced, 1 deep chain, 2 random
pub fn split_lengths(n: usize, maxd: u8, bias: u8, x: &mut Xs) -> Vec<u8> {
    assert!(n >= 2);
    let mut leaves: Vec<u8> = vec![1, 1];
    while leaves.len() < n {
        // candidates: leaves with depth < maxd
        let idx = match bias {
            0 => {
                // shallowest
                let mut bi = 0;
                for (i, &d) in leaves.iter().enumerate() {
                    if d < leaves[bi] {
                        bi = i;
                    }
                }
                bi
            }
            1 => {
                // deepest splittable
                let mut bi = usize::MAX;
                for (i, &d) in leaves.iter().enumerate() {
                    if d < maxd && (bi == usize::MAX || d > leaves[bi]) {
                        bi = i;
                    }
                }
                bi
            }
            _ => {
                let mut i = x.below(leaves.len());
                let mut guard = 0;
                while leaves[i] >= maxd && guard < 4 * leaves.len() {
                    i = (i + 1) % leaves.len();
                    guard += 1;
                }
                i
            }
        };
        let idx = if idx == usize::MAX || leaves[idx] >= maxd {
            // fall back to the shallowest leaf (always splittable while n <= 2^maxd)
            let mut bi = 0;
            for (i, &d) in leaves.iter().enumerate() {
                if d < leaves[bi] {
                    bi = i;
                }
            }
            bi
        } else {
            idx
        };
        let d = leaves[idx] + 1;
        leaves[idx] = d;
        leaves.push(d);
    }
    // shuffle assignment
    for i in (1..leaves.len()).rev() {
        let j = x.below(i + 1);
        leaves.swap(i, j);
    }
    leaves
}

fn used_symbols(syms: &[Sym]) -> (Vec<bool>, Vec<bool>) {
    let mut lit = vec![false; 286];
    let mut dist = vec![false; 30];
    lit[256] = true;
    for s in syms {
        match *s {
            Sym::Lit(b) => lit[b as usize] = true,
            Sym::Match { len, dist: d, alt258 } => {
                lit[len_sym(len, alt258).0 as usize] = true;
                dist[dist_sym(d).0 as usize] = true;
            }
        }
    }
    (lit, dist)
}

/// assign a complete code to the `used` symbols (plus `extra` unused ones), others get 0
fn assign(used: &[bool], alphabet: usize, extra: usize, maxd: u8, bias: u8, x: &mut Xs) -> Vec<u8> {
    let mut idx: Vec<usize> = (0..alphabet).filter(|&i| used[i]).collect();
    let mut unused: Vec<usize> = (0..alphabet).filter(|&i| !used[i]).collect();
    for _ in 0..extra {
        if unused.is_empty() {
            break;
        }
        let j = x.below(unused.len());
        idx.push(unused.swap_remove(j));
    }
    while idx.len() < 2 && !unused.is_empty() {
        let j = x.below(unused.len());
        idx.push(unused.swap_remove(j));
    }
    let mut lens = vec![0u8; alphabet];
    if idx.len() < 2 {
        for i in idx {
            lens[i] = 1;
        }
        return lens;
    }
    let l = split_lengths(idx.len(), maxd, bias, x);
    for (k, &i) in idx.iter().enumerate() {
        lens[i] = l[k];
    }
    lens
}

fn emit_syms(w: &mut BitW, syms: &[Sym], llen: &[u8], lcode: &[u32], dlen: &[u8], dcode: &[u32]) {
    for s in syms {
        match *s {
            Sym::Lit(b) => w.code(lcode[b as usize], llen[b as usize] as u32),
            Sym::Match { len, dist, alt258 } => {
                let (ls, lx, lxb) = len_sym(len, alt258);
                w.code(lcode[ls as usize], llen[ls as usize] as u32);
                w.bits(lx, lxb);
                let (ds, dx, dxb) = dist_sym(dist);
                w.code(dcode[ds as usize], dlen[ds as usize] as u32);
                w.bits(dx, dxb);
            }
        }
    }
}

/// run-length encode the code length sequence with symbols 0..18; choices by prng
fn rle_lengths(seq: &[u8], x: &mut Xs, greedy: bool) -> Vec<(u8, u32, u32)> {
    let mut o = Vec::new();
    let mut i = 0;
    while i < seq.len() {
        let v = seq[i];
        let mut run = 1;
        while i + run < seq.len() && seq[i + run] == v {
            run += 1;
        }
        let use_rle = greedy || x.below(4) != 0;
        if v == 0 && run >= 3 && use_rle {
            let take = if greedy { run.min(138) } else { 3 + x.below(run.min(138) - 2) };
            if take >= 11 {
                o.push((18, (take - 11) as u32, 7));
            } else {
                o.push((17, (take - 3) as u32, 3));
            }
            i += take;
        } else if v != 0 && run >= 4 && use_rle {
            o.push((v, 0, 0));
            let rest = run - 1;
            let take = if greedy { rest.min(6) } else { 3 + x.below(rest.min(6) - 2) };
            o.push((16, (take - 3) as u32, 2));
            i += 1 + take;
        } else {
            o.push((v, 0, 0));
            i += 1;
        }
    }
    o
}

struct BlockPlan {
    kind: u8, // 0 stored 1 fixed 2 dynamic
    syms: Vec<Sym>,
    stored: Vec<u8>,
}

fn gen_syms(x: &mut Xs, n: usize, out: &mut Vec<u8>, dict: &[u8], max_dist: usize, max_out: usize, style: u8, feat: &mut Features) -> Vec<Sym> {
    let mut v = Vec::with_capacity(n);
    let lit_alpha: u32 = match style & 3 {
        0 => 256,
        1 => 4,
        2 => 64,
        _ => 256,
    };
    let match_pct = match (style >> 2) & 3 {
        0 => 0,
        1 => 20,
        2 => 60,
        _ => 95,
    };
    for _ in 0..n {
        if out.len() >= max_out {
            break;
        }
        let avail = (out.len() + dict.len()).min(max_dist).min(32768);
        if avail >= 1 && (x.below(100) as u32) < match_pct {
            let len = match x.below(10) {
                0 => 3,
                1 => 4,
                2 => 258,
                3 => 257,
                4 => 3 + x.below(8),
                5 => 10 + x.below(30),
                6 => 227 + x.below(31),
                _ => 3 + x.below(256),
            } as u16;
            let len = (len as usize).min((max_out - out.len()).max(3)).max(3) as u16;
            let dist = match x.below(12) {
                0 => 1,
                1 => 2 + x.below(7),
                2 => len as usize,
                3 => 257 + x.below(3),
                4 => avail,
                5 => avail.saturating_sub(1).max(1),
                6 => avail.min(32768),
                7 => 1 + x.below(avail.min(64)),
                8 => 1 + x.below(avail.min(1024)),
                _ => 1 + x.below(avail),
            }
            .min(avail)
            .max(1);
            let alt = len == 258 && x.below(3) == 0;
            if alt {
                feat.len258_alt = true;
            }
            if dist == 32768 {
                feat.dist_32768 = true;
            }
            if dist > feat.max_dist {
                feat.max_dist = dist;
            }
            if dist > out.len() {
                feat.dict_reach = true;
            }
            feat.matches += 1;
            for _ in 0..len {
                let n = out.len();
                let b = if dist <= n { out[n - dist] } else { dict[dict.len() - (dist - n)] };
                out.push(b);
            }
            v.push(Sym::Match { len, dist: dist as u16, alt258: alt });
        } else {
            let b = if lit_alpha == 4 { [0u8, 143, 144, 255][x.below(4)] } else { x.below(lit_alpha as usize) as u8 };
            out.push(b);
            v.push(Sym::Lit(b));
        }
    }
    v
}

const NSYMS: [usize; 16] = [0, 0, 1, 2, 3, 8, 20, 50, 100, 300, 700, 1500, 3000, 6000, 12000, 30000];

/// Generate one raw deflate stream.
pub fn gen_raw(t: &mut Tape, o: &GenOpts) -> GenStream {
    let mut w = BitW::new();
    let mut out: Vec<u8> = Vec::new();
    let mut feat = Features::default();
    let nblocks = 1 + t.below(o.max_blocks.max(1));
    let fault_block = if o.fault == Fault::None { usize::MAX } else { t.below(nblocks) };
    let mut faulted = false;
    let mut out_before_fault: Option<Vec<u8>> = None;
    let mut end_bit = 0;
    for bi in 0..nblocks {
        let last = bi + 1 == nblocks;
        let inject = bi == fault_block;
        let mut kind = t.below(3) as u8;
        let seed = t.u16() as u64 ^ ((bi as u64) << 20);
        let mut x = Xs::new(seed ^ 0x5eed);
        let style = t.u8();
        // faults that need a particular block kind
        if inject {
            kind = match o.fault {
                Fault::BadNlen => 0,
                Fault::Sym286 | Fault::DistSym30 => 1,
                Fault::Oversubscribed | Fault::Incomplete | Fault::MissingEob | Fault::TooManyLens | Fault::TooManyDists | Fault::Repeat16First | Fault::RepeatPastEnd | Fault::BadClenCode | Fault::UnusedCodeUsed => 2,
                _ => kind,
            };
        }
        feat.blocks += 1;
        if inject && o.fault == Fault::BlockType3 {
            out_before_fault = Some(out.clone());
            w.bits(last as u32, 1);
            w.bits(3, 2);
            faulted = true;
            w.bits(x.next() as u32, 16);
            break;
        }
        if w.bit_len() % 8 != 0 && kind == 0 {
            feat.stored_unaligned = true;
        }
        match kind {
            0 => {
                let n = match t.below(8) {
                    0 => 0,
                    1 => 1,
                    2 => t.below(16),
                    3 => t.below(300),
                    4 => 65535,
                    5 => t.below(65536),
                    _ => t.below(3000),
                }
                .min(o.max_out.saturating_sub(out.len()));
                let mut data = vec![0u8; n];
                let fam = x.below(3);
                for b in data.iter_mut() {
                    *b = match fam {
                        0 => (x.next() >> 32) as u8,
                        1 => b'a' + x.below(4) as u8,
                        _ => 0,
                    };
                }
                w.bits(last as u32, 1);
                w.bits(0, 2);
                w.align();
                let mut nlen = !(n as u32) & 0xffff;
                if inject && o.fault == Fault::BadNlen {
                    out_before_fault = Some(out.clone());
                    nlen ^= 1 << x.below(16);
                    faulted = true;
                }
                w.bits(n as u32, 16);
                w.bits(nlen, 16);
                w.bytes(&data);
                out.extend_from_slice(&data);
                feat.stored += 1;
                if n == 0 {
                    feat.empty_blocks += 1;
                }
                if faulted {
                    break;
                }
            }
            _ => {
                let nsyms = NSYMS[t.below(16)];
                let nsyms = if nsyms >= 100 { nsyms / 2 + x.below(nsyms / 2 + 1) } else { nsyms };
                let force_single = inject && o.fault == Fault::UnusedCodeUsed;
                let nsyms = if force_single { 0 } else { nsyms };
                let mut syms = gen_syms(&mut x, nsyms, &mut out, o.dict, o.max_dist, o.max_out, style, &mut feat);
                if syms.is_empty() {
                    feat.empty_blocks += 1;
                }
                // distance-too-far fault: append a match reaching before the start of history
                let mut too_far_at: Option<usize> = None;
                if inject && o.fault == Fault::DistTooFar {
                    let avail = out.len() + o.dict.len();
                    if avail < 32768 {
                        let d = (avail + 1 + x.below((32768 - avail).min(40))).min(32768);
                        too_far_at = Some(syms.len());
                        out_before_fault = Some(out.clone());
                        syms.push(Sym::Match { len: 3 + x.below(20) as u16, dist: d as u16, alt258: false });
                        faulted = true;
                    }
                }
                let _ = too_far_at;
                if kind == 1 {
                    feat.fixed += 1;
                    w.bits(last as u32, 1);
                    w.bits(1, 2);
                    let llen = super::rdec::fixed_lit_lens();
                    let lcode = canon_codes(&llen);
                    let dlen = [5u8; 32];
                    let dcode = canon_codes(&dlen);
                    emit_syms(&mut w, &syms, &llen, &lcode, &dlen, &dcode);
                    if inject && o.fault == Fault::Sym286 {
                        out_before_fault = Some(out.clone());
                        let s = 286 + x.below(2);
                        w.code(lcode[s], llen[s] as u32);
                        faulted = true;
                        w.bits(x.next() as u32, 16);
                        break;
                    }
                    if inject && o.fault == Fault::DistSym30 {
                        out_before_fault = Some(out.clone());
                        let (ls, lx, lxb) = len_sym(3 + x.below(256) as u16, false);
                        w.code(lcode[ls as usize], llen[ls as usize] as u32);
                        w.bits(lx, lxb);
                        let s = 30 + x.below(2);
                        w.code(dcode[s], 5);
                        faulted = true;
                        w.bits(x.next() as u32, 16);
                        break;
                    }
                    if faulted {
                        break;
                    }
                    w.code(lcode[256], llen[256] as u32);
                } else {
                    feat.dynamic += 1;
                    let (lused, dused) = used_symbols(&syms);
                    let lit_bias = t.below(3) as u8;
                    let lit_maxd = t.pick(&[15u8, 15, 9, 10, 12, 15, 8, 15]);
                    let lit_extra = t.pick(&[0usize, 0, 1, 5, 40, 286]);
                    let n_lused = lused.iter().filter(|&&b| b).count();
                    let lit_maxd = if (n_lused + lit_extra).min(286) > (1usize << lit_maxd.min(15)) { 15 } else { lit_maxd };
                    let mut llen: Vec<u8>;
                    if n_lused == 1 && (t.bool() || force_single) {
                        // EOB only: single one-bit code (incomplete, allowed by zlib since max == 1)
                        llen = vec![0u8; 286];
                        llen[256] = 1;
                        feat.degenerate = true;
                    } else {
                        llen = assign(&lused, 286, lit_extra, lit_maxd, lit_bias, &mut x);
                    }
                    let n_dused = dused.iter().filter(|&&b| b).count();
                    let dist_mode = t.below(4);
                    let mut dlen: Vec<u8>;
                    if n_dused == 0 && dist_mode <= 1 {
                        dlen = vec![0u8; 30]; // no distance codes at all
                        feat.degenerate = true;
                    } else if n_dused <= 1 && dist_mode == 2 {
                        dlen = vec![0u8; 30];
                        let s = if n_dused == 1 { dused.iter().position(|&b| b).unwrap() } else { x.below(30) };
                        dlen[s] = 1; // single distance code of one bit (RFC 1951 3.2.7)
                        feat.degenerate = true;
                    } else {
                        let dist_extra = t.pick(&[0usize, 0, 1, 3, 30]);
                        let dist_maxd = t.pick(&[15u8, 15, 6, 7, 15, 5]);
                        let dist_maxd = if (n_dused + dist_extra).min(30).max(2) > (1usize << dist_maxd) { 15 } else { dist_maxd };
                        dlen = assign(&dused, 30, dist_extra, dist_maxd, t.below(3) as u8, &mut x);
                    }
                    // faults in the code description
                    let mut missing_eob = false;
                    if inject {
                        match o.fault {
                            Fault::Oversubscribed => {
                                // shorten one code with length >= 2: Kraft sum exceeds 1
                                let which = x.below(2) == 0;
                                let tbl: &mut Vec<u8> = if which || dlen.iter().all(|&l| l < 2) { &mut llen } else { &mut dlen };
                                if let Some(i) = (0..tbl.len()).filter(|&i| tbl[i] >= 2).nth(0) {
                                    tbl[i] -= 1;
                                    faulted = true;
                                }
                            }
                            Fault::Incomplete => {
                                // lengthen one code (max length stays > 1): Kraft sum below 1
                                if let Some(i) = (0..llen.len()).filter(|&i| llen[i] >= 1 && llen[i] < 15).last() {
                                    if llen.iter().filter(|&&l| l > 0).count() >= 2 {
                                        llen[i] += 1;
                                        faulted = true;
                                    }
                                }
                            }
                            Fault::MissingEob => {
                                missing_eob = true;
                                faulted = true;
                            }
                            _ => {}
                        }
                    }
                    if missing_eob {
                        // rebuild the literal/length code without symbol 256
                        let mut lu = lused.clone();
                        lu[256] = false;
                        llen = assign(&lu, 286, lit_extra.max(2), 15, lit_bias, &mut x);
                        if llen[256] != 0 {
                            let v = llen[256];
                            llen[256] = 0;
                            if let Some(i) = (0..286).find(|&i| i != 256 && llen[i] == 0) {
                                llen[i] = v;
                            } else {
                                llen[256] = v;
                                faulted = false;
                            }
                        }
                    }
                    let mut nlen = 286;
                    while nlen > 257 && llen[nlen - 1] == 0 {
                        nlen -= 1;
                    }
                    if t.chance(40) {
                        nlen = 286; // untrimmed
                    }
                    let mut ndist = 30;
                    while ndist > 1 && dlen[ndist - 1] == 0 {
                        ndist -= 1;
                    }
                    if t.chance(40) {
                        ndist = 30;
                    }
                    let lmax = llen.iter().copied().max().unwrap_or(0);
                    let dmax = dlen.iter().copied().max().unwrap_or(0);
                    if lmax > 9 {
                        feat.deep_lit = true;
                    }
                    if dmax > 6 {
                        feat.deep_dist = true;
                    }
                    feat.max_code_len = feat.max_code_len.max(lmax).max(dmax);
                    let mut seq: Vec<u8> = llen[..nlen].to_vec();
                    seq.extend_from_slice(&dlen[..ndist]);
                    let greedy = t.bool();
                    let mut rle = rle_lengths(&seq, &mut x, greedy);
                    let mut hl_field = (nlen - 257) as u32;
                    let mut hd_field = (ndist - 1) as u32;
                    if inject {
                        match o.fault {
                            Fault::TooManyLens => {
                                hl_field = 30 + x.below(2) as u32; // 287 or 288
                                faulted = true;
                            }
                            Fault::TooManyDists => {
                                hd_field = 30 + x.below(2) as u32; // 31 or 32
                                faulted = true;
                            }
                            Fault::Repeat16First => {
                                rle.insert(0, (16, x.below(4) as u32, 2));
                                faulted = true;
                            }
                            Fault::RepeatPastEnd => {
                                // final run overshoots the announced count: drop the last entry
                                // (covering c < 138 lengths) and put a run of 138 zeros in its place
                                if let Some(e) = rle.pop() {
                                    let c = match e.0 { 16 => 3 + e.1, 17 => 3 + e.1, 18 => 11 + e.1, _ => 1 };
                                    if c < 138 {
                                        rle.push((18, 127, 7));
                                        faulted = true;
                                    } else {
                                        rle.push(e);
                                    }
                                }
                            }
                            _ => {}
                        }
                    }
                    // code length code
                    let mut cused = vec![false; 19];
                    for &(s, _, _) in &rle {
                        cused[s as usize] = true;
                    }
                    let cl_extra = t.pick(&[0usize, 0, 1, 4, 19]);
                    let cl_bias = t.below(3) as u8;
                    let mut clen = assign(&cused, 19, cl_extra, 7, cl_bias, &mut x);
                    if inject && o.fault == Fault::BadClenCode {
                        // make the code length code incomplete or over-subscribed
                        if let Some(i) = (0..19).find(|&i| clen[i] >= 2) {
                            if x.below(2) == 0 {
                                clen[i] -= 1;
                            } else if clen[i] < 7 {
                                clen[i] += 1;
                            } else {
                                clen[i] -= 1;
                            }
                            faulted = true;
                        }
                    }
                    let ccode = canon_codes(&clen);
                    let mut ncode = 19;
                    while ncode > 4 && clen[CLEN_ORDER[ncode - 1]] == 0 {
                        ncode -= 1;
                    }
                    if t.chance(40) {
                        ncode = 19;
                    }
                    if faulted && out_before_fault.is_none() {
                        // faults in the header: nothing of this block is output
                        let mut ob = out.clone();
                        let produced: usize = syms.iter().map(|s| match s { Sym::Lit(_) => 1, Sym::Match { len, .. } => *len as usize }).sum();
                        ob.truncate(out.len() - produced);
                        out_before_fault = Some(ob);
                    }
                    w.bits(last as u32, 1);
                    w.bits(2, 2);
                    w.bits(hl_field, 5);
                    w.bits(hd_field, 5);
                    w.bits((ncode - 4) as u32, 4);
                    for i in 0..ncode {
                        w.bits(clen[CLEN_ORDER[i]] as u32, 3);
                    }
                    for &(s, xv, xb) in &rle {
                        w.code(ccode[s as usize], clen[s as usize] as u32);
                        w.bits(xv, xb);
                    }
                    let lcode = canon_codes(&llen);
                    let dcode = canon_codes(&dlen);
                    if faulted && !(o.fault == Fault::DistTooFar) {
                        // header-level fault: decoder stops before any symbol; pad with noise
                        w.bits(x.next() as u32, 24);
                        break;
                    }
                    emit_syms(&mut w, &syms, &llen, &lcode, &dlen, &dcode);
                    if inject && o.fault == Fault::UnusedCodeUsed {
                        // only possible with an incomplete (single, one-bit) code: emit the unused pattern
                        if llen.iter().filter(|&&l| l > 0).count() == 1 {
                            out_before_fault = Some(out.clone());
                            w.bits(1, 1);
                            faulted = true;
                            w.bits(x.next() as u32, 16);
                            break;
                        }
                    }
                    if faulted {
                        break;
                    }
                    w.code(lcode[256], llen[256] as u32);
                }
            }
        }
        end_bit = w.bit_len();
        if out.len() >= o.max_out {
            // close the stream: final empty fixed block if this was not marked last
            if !last {
                w.bits(1, 1);
                w.bits(1, 2);
                w.code(0, 7);
                feat.fixed += 1;
                feat.blocks += 1;
                end_bit = w.bit_len();
            }
            break;
        }
    }
    let bytes = w.finish();
    let expected = if faulted { out_before_fault.unwrap_or_default() } else { out };
    GenStream { bytes, out: expected, end_bit, fault: o.fault, faulted, feat }
}

// ---------------------------------------------------------------------------------------------
// wrappers

#[derive(Clone, Debug, Default)]
pub struct GzFields {
    pub text: bool,
    pub hcrc: bool,
    pub mtime: u32,
    pub xfl: u8,
    pub os: u8,
    pub extra: Option<Vec<u8>>,
    pub name: Option<Vec<u8>>,
    pub comment: Option<Vec<u8>>,
    /// the C 'boolean int' values handed to deflateSetHeader for text / hcrc (any non-zero = true)
    pub text_val: i32,
    pub hcrc_val: i32,
}

pub fn gen_gz_fields(t: &mut Tape, big: bool) -> GzFields {
    let mut f = GzFields::default();
    let flags = t.u8();
    f.text = flags & 1 != 0;
    f.hcrc = flags & 2 != 0;
    f.text_val = if f.text { t.pick(&[1, 1, 2, -1, 255, i32::MIN, 256]) } else { 0 };
    f.hcrc_val = if f.hcrc { t.pick(&[1, 1, 2, -1, 222, -42, i32::MIN, 65536]) } else { 0 };
    f.mtime = if flags & 0x80 != 0 { t.u32() } else { 0 };
    f.xfl = t.pick(&[0u8, 2, 4, 0xff, 1]);
    f.os = t.pick(&[3u8, 0, 255, 11, 7]);
    let sizes: &[usize] = if big { &[0, 1, 2, 7, 100, 511, 512, 513, 1000, 5000, 65535] } else { &[0, 1, 2, 3, 7, 20, 100, 300] };
    let fill = |t: &mut Tape, n: usize, nul_free: bool| -> Vec<u8> {
        let s = t.u8();
        (0..n).map(|i| { let b = (i as u8).wrapping_mul(31).wrapping_add(s); if nul_free && b == 0 { 1 } else { b } }).collect()
    };
    if flags & 4 != 0 {
        let n = t.pick(sizes);
        f.extra = Some(fill(t, n, false));
    }
    if flags & 8 != 0 {
        let n = t.pick(sizes);
        f.name = Some(fill(t, n, true));
    }
    if flags & 16 != 0 {
        let n = t.pick(sizes);
        f.comment = Some(fill(t, n, true));
    }
    f
}

pub fn gzip_header_bytes(f: &GzFields) -> Vec<u8> {
    let mut h = vec![0x1f, 0x8b, 8];
    let flg = (f.text as u8) | (f.hcrc as u8) << 1 | (f.extra.is_some() as u8) << 2 | (f.name.is_some() as u8) << 3 | (f.comment.is_some() as u8) << 4;
    h.push(flg);
    h.extend_from_slice(&f.mtime.to_le_bytes());
    h.push(f.xfl);
    h.push(f.os);
    if let Some(e) = &f.extra {
        h.extend_from_slice(&(e.len() as u16).to_le_bytes());
        h.extend_from_slice(e);
    }
    if let Some(n) = &f.name {
        h.extend_from_slice(n);
        h.push(0);
    }
    if let Some(c) = &f.comment {
        h.extend_from_slice(c);
        h.push(0);
    }
    if f.hcrc {
        let c = rck::crc32_fast(0, &h) & 0xffff;
        h.extend_from_slice(&(c as u16).to_le_bytes());
    }
    h
}

pub fn gzip_wrap(f: &GzFields, body: &[u8], out: &[u8]) -> Vec<u8> {
    let mut v = gzip_header_bytes(f);
    v.extend_from_slice(body);
    v.extend_from_slice(&rck::crc32_fast(0, out).to_le_bytes());
    v.extend_from_slice(&(out.len() as u32).to_le_bytes());
    v
}

/// zlib wrapper: `cinfo` = announced window bits - 8, optional FDICT
pub fn zlib_wrap(cinfo: u8, flevel: u8, dictid: Option<u32>, body: &[u8], out: &[u8]) -> Vec<u8> {
    let cmf = (cinfo << 4) | 8;
    let mut flg = (flevel << 6) | if dictid.is_some() { 0x20 } else { 0 };
    let rem = ((cmf as u32) << 8 | flg as u32) % 31;
    if rem != 0 {
        flg += (31 - rem) as u8;
    }
    let mut v = vec![cmf, flg];
    if let Some(d) = dictid {
        v.extend_from_slice(&d.to_be_bytes());
    }
    v.extend_from_slice(body);
    v.extend_from_slice(&rck::adler32_fast(1, out).to_be_bytes());
    v
}

// ---------------------------------------------------------------------------------------------
// R-MUT

#[derive(Clone, Debug)]
pub struct Mutation {
    pub kind: &'static str,
    pub at: usize,
}

pub fn mutate(t: &mut Tape, d: &mut Vec<u8>, other: &[u8]) -> Mutation {
    let n = d.len();
    let k = t.below(7);
    let at = if n == 0 { 0 } else { t.below(n) };
    match k {
        0 if n > 0 => {
            d[at] ^= 1 << t.below(8);
            Mutation { kind: "bitflip", at }
        }
        1 if n > 0 => {
            d[at] = t.u8();
            Mutation { kind: "byte-replace", at }
        }
        2 if n > 0 => {
            d.remove(at);
            Mutation { kind: "delete", at }
        }
        3 => {
            d.insert(at, t.u8());
            Mutation { kind: "insert", at }
        }
        4 if !other.is_empty() => {
            let from = t.below(other.len());
            d.truncate(at);
            d.extend_from_slice(&other[from..]);
            Mutation { kind: "splice", at }
        }
        5 if n > 0 => {
            d.truncate(at);
            Mutation { kind: "truncate", at }
        }
        _ => {
            if n > 0 {
                let e = (at + 1 + t.below(8)).min(n);
                for i in at..e {
                    d[i] = t.u8();
                }
            }
            Mutation { kind: "overwrite-run", at }
        }
    }
}
