//! R-GZH: RFC 1950 / RFC 1952 wrapper parsers and whole-stream decoding on top of R-DEC.
use super::rck;
use super::rdec::{self, DecOpts, DecResult, Verdict};

#[derive(Clone, Debug, Default, PartialEq, Eq)]
pub struct GzHeader {
    pub text: bool,
    pub hcrc_flag: bool,
    pub mtime: u32,
    pub xfl: u8,
    pub os: u8,
    pub extra: Option<Vec<u8>>,
    pub name: Option<Vec<u8>>,    // without the terminating NUL
    pub comment: Option<Vec<u8>>, // without the terminating NUL
    pub hcrc: Option<u16>,
    pub flg: u8,
    pub len: usize,
}

#[derive(Clone, Debug, PartialEq, Eq)]
pub enum HdrErr {
    Truncated,
    Invalid(&'static str),
}

pub fn parse_gzip_header(d: &[u8]) -> Result<GzHeader, HdrErr> {
    let mut h = GzHeader::default();
    let get = |i: usize| -> Result<u8, HdrErr> { d.get(i).copied().ok_or(HdrErr::Truncated) };
    // zlib reads the magic as one 16-bit unit, then method+flags as one 16-bit unit
    if d.len() < 2 {
        return Err(HdrErr::Truncated);
    }
    if d[0] != 0x1f || d[1] != 0x8b {
        return Err(HdrErr::Invalid("incorrect header check"));
    }
    if d.len() < 4 {
        return Err(HdrErr::Truncated);
    }
    if get(2)? != 8 {
        return Err(HdrErr::Invalid("unknown compression method"));
    }
    let flg = get(3)?;
    if flg & 0xe0 != 0 {
        return Err(HdrErr::Invalid("unknown header flags set"));
    }
    h.flg = flg;
    h.text = flg & 1 != 0;
    h.hcrc_flag = flg & 2 != 0;
    h.mtime = (get(4)? as u32) | (get(5)? as u32) << 8 | (get(6)? as u32) << 16 | (get(7)? as u32) << 24;
    h.xfl = get(8)?;
    h.os = get(9)?;
    let mut p = 10;
    if flg & 4 != 0 {
        let xlen = get(p)? as usize | (get(p + 1)? as usize) << 8;
        p += 2;
        if d.len() < p + xlen {
            return Err(HdrErr::Truncated);
        }
        h.extra = Some(d[p..p + xlen].to_vec());
        p += xlen;
    }
    if flg & 8 != 0 {
        let mut v = Vec::new();
        loop {
            let c = get(p)?;
            p += 1;
            if c == 0 {
                break;
            }
            v.push(c);
        }
        h.name = Some(v);
    }
    if flg & 16 != 0 {
        let mut v = Vec::new();
        loop {
            let c = get(p)?;
            p += 1;
            if c == 0 {
                break;
            }
            v.push(c);
        }
        h.comment = Some(v);
    }
    if flg & 2 != 0 {
        let c = get(p)? as u16 | (get(p + 1)? as u16) << 8;
        let want = (rck::crc32_fast(0, &d[..p]) & 0xffff) as u16;
        p += 2;
        h.hcrc = Some(c);
        if c != want {
            return Err(HdrErr::Invalid("header crc mismatch"));
        }
    }
    h.len = p;
    Ok(h)
}

#[derive(Clone, Debug, Default)]
pub struct ZlibHeader {
    pub cinfo: u8,
    pub flevel: u8,
    pub fdict: bool,
    pub dictid: u32,
    pub len: usize,
}

/// `max_wbits`: the decoder's window bits (zlib rejects a header announcing more); 0 = take the header's
pub fn parse_zlib_header(d: &[u8], max_wbits: u8) -> Result<ZlibHeader, HdrErr> {
    if d.len() < 2 {
        return Err(HdrErr::Truncated);
    }
    let cmf = d[0];
    let flg = d[1];
    if ((cmf as u32) << 8 | flg as u32) % 31 != 0 {
        return Err(HdrErr::Invalid("incorrect header check"));
    }
    if cmf & 0x0f != 8 {
        return Err(HdrErr::Invalid("unknown compression method"));
    }
    let cinfo = cmf >> 4;
    if cinfo > 7 {
        return Err(HdrErr::Invalid("invalid window size"));
    }
    if max_wbits != 0 && cinfo + 8 > max_wbits {
        return Err(HdrErr::Invalid("invalid window size"));
    }
    let mut h = ZlibHeader { cinfo, flevel: flg >> 6, fdict: flg & 0x20 != 0, dictid: 0, len: 2 };
    if h.fdict {
        if d.len() < 6 {
            return Err(HdrErr::Truncated);
        }
        h.dictid = u32::from_be_bytes([d[2], d[3], d[4], d[5]]);
        h.len = 6;
    }
    Ok(h)
}

#[derive(Clone, Copy, Debug, PartialEq, Eq)]
pub enum Wrap {
    Raw,
    Zlib,
    Gzip,
}

#[derive(Clone, Debug)]
pub struct StreamResult {
    pub verdict: Verdict,
    pub out: Vec<u8>,
    /// total bytes the stream occupies (valid streams)
    pub consumed: usize,
    pub body: Option<DecResult>,
    pub gz: Option<GzHeader>,
    pub zh: Option<ZlibHeader>,
    pub need_dict: Option<u32>,
    /// offset of the deflate body
    pub body_off: usize,
}

/// Decode one complete wrapped stream at the start of `d` per RFC 1950/1951/1952.
/// `dict`: preset dictionary supplied for a zlib FDICT stream (or raw history).
pub fn decode_stream(d: &[u8], wrap: Wrap, max_wbits: u8, opts: &DecOpts) -> StreamResult {
    let mut sr = StreamResult { verdict: Verdict::Valid, out: Vec::new(), consumed: 0, body: None, gz: None, zh: None, need_dict: None, body_off: 0 };
    let off;
    match wrap {
        Wrap::Raw => off = 0,
        Wrap::Zlib => match parse_zlib_header(d, max_wbits) {
            Ok(h) => {
                off = h.len;
                if h.fdict {
                    sr.need_dict = Some(h.dictid);
                    if opts.dict.is_empty() || rck::adler32_fast(1, &opts.dict) != h.dictid {
                        // caller did not supply the matching dictionary: report the need
                        sr.zh = Some(h);
                        sr.verdict = Verdict::Invalid { bit_pos: 0, reason: "need dictionary" };
                        return sr;
                    }
                }
                sr.zh = Some(h);
            }
            Err(HdrErr::Truncated) => {
                sr.verdict = Verdict::Truncated;
                return sr;
            }
            Err(HdrErr::Invalid(r)) => {
                sr.verdict = Verdict::Invalid { bit_pos: 0, reason: r };
                return sr;
            }
        },
        Wrap::Gzip => match parse_gzip_header(d) {
            Ok(h) => {
                off = h.len;
                sr.gz = Some(h);
            }
            Err(HdrErr::Truncated) => {
                sr.verdict = Verdict::Truncated;
                return sr;
            }
            Err(HdrErr::Invalid(r)) => {
                sr.verdict = Verdict::Invalid { bit_pos: 0, reason: r };
                return sr;
            }
        },
    }
    sr.body_off = off;
    let body = rdec::inflate_raw(&d[off..], 0, opts);
    sr.out = body.out.clone();
    sr.verdict = body.verdict.clone();
    let end = off + body.end_byte();
    sr.body = Some(body);
    if sr.verdict != Verdict::Valid {
        return sr;
    }
    match wrap {
        Wrap::Raw => sr.consumed = end,
        Wrap::Zlib => {
            if d.len() < end + 4 {
                sr.verdict = Verdict::Truncated;
                return sr;
            }
            let want = rck::adler32_fast(1, &sr.out);
            let got = u32::from_be_bytes([d[end], d[end + 1], d[end + 2], d[end + 3]]);
            if want != got {
                sr.verdict = Verdict::Invalid { bit_pos: end * 8, reason: "incorrect data check" };
                return sr;
            }
            sr.consumed = end + 4;
        }
        Wrap::Gzip => {
            if d.len() < end + 4 {
                sr.verdict = Verdict::Truncated;
                return sr;
            }
            let want = rck::crc32_fast(0, &sr.out);
            let got = u32::from_le_bytes([d[end], d[end + 1], d[end + 2], d[end + 3]]);
            if want != got {
                sr.verdict = Verdict::Invalid { bit_pos: end * 8, reason: "incorrect data check" };
                return sr;
            }
            if d.len() < end + 8 {
                sr.verdict = Verdict::Truncated;
                return sr;
            }
            let isz = u32::from_le_bytes([d[end + 4], d[end + 5], d[end + 6], d[end + 7]]);
            if isz != sr.out.len() as u32 {
                sr.verdict = Verdict::Invalid { bit_pos: (end + 4) * 8, reason: "incorrect length check" };
                return sr;
            }
            sr.consumed = end + 8;
        }
    }
    sr
}
