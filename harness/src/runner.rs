//! Worker-side runner: proptest-driven tape generation with shrinking,
//! enumeration phases, journal for crash recovery, per-worker result file.
use crate::json::J;
use crate::tape::splitmix;
use proptest::prelude::*;
use proptest::test_runner::{Config, RngAlgorithm, RngSeed, TestCaseError, TestError, TestRunner};
use std::cell::RefCell;
use std::collections::{BTreeMap, HashSet};
use std::io::Write;
use std::os::unix::fs::FileExt;

#[derive(Clone, Copy, PartialEq, Eq, Debug)]
pub enum Tier {
    Quick,
    Thorough,
}

#[derive(Clone, Debug)]
pub struct Fail {
    pub sig: String,
    pub msg: String,
}

#[derive(Default)]
pub struct Outcome {
    pub fail: Option<Fail>,
    /// known-finding signatures re-observed by this case (not failures)
    pub known: Vec<String>,
    /// fingerprint of the decoded case if it is non-trivial by the property's rule
    pub nontrivial: Option<u64>,
    pub classes: Vec<&'static str>,
    /// how many evaluations this case stands for (default 1)
    pub evals: u64,
    pub sample: Option<J>,
    /// harness/oracle defect detected (never a verdict about zlib-rs): worker exits 2
    pub internal: Option<String>,
    /// digest of the observable behaviour of this case (compared across build variants by the driver)
    pub digest: Option<u64>,
}

impl Outcome {
    pub fn new() -> Self {
        Outcome { evals: 1, ..Default::default() }
    }
    pub fn fail<S: Into<String>, M: Into<String>>(&mut self, sig: S, msg: M) {
        if self.fail.is_none() {
            self.fail = Some(Fail { sig: sig.into(), msg: msg.into() });
        }
    }
    pub fn class(&mut self, c: &'static str) {
        if !self.classes.contains(&c) {
            self.classes.push(c);
        }
    }
}

pub struct Ctx {
    pub tier: Tier,
    pub want_sample: bool,
    pub known: HashSet<String>,
    pub replay: bool,
    pub worker: usize,
    pub nworkers: usize,
    pub seed: u64,
    pub variant: String,
}

impl Ctx {
    /// Turn a failure into a known observation if its signature is listed.
    pub fn settle(&self, mut o: Outcome) -> Outcome {
        if let Some(f) = &o.fail {
            if self.known.contains(&f.sig) {
                let s = f.sig.clone();
                o.known.push(s);
                o.fail = None;
            }
        }
        o
    }
}

pub type CaseFn = fn(&[u8], &Ctx) -> Outcome;
/// enumeration phase: calls `sink` for each enumerated case (as replay bytes + outcome)
/// the sink is called with `None` before a case runs (journal) and with `Some(outcome)` after
pub type EnumFn = fn(&Ctx, &mut dyn FnMut(&[u8], Option<Outcome>) -> bool);

pub enum Phase {
    Prop { name: &'static str, f: CaseFn, quick: u32, thorough: u32, max_tape: usize },
    Enum { name: &'static str, f: EnumFn, replay: CaseFn },
}

pub struct Property {
    pub id: &'static str,
    pub rule: &'static str,
    pub phases: Vec<Phase>,
}

#[derive(Default)]
pub struct Stats {
    pub evals: u64,
    pub cases: u64,
    pub fps: HashSet<u64>,
    pub classes: BTreeMap<String, u64>,
    pub samples: Vec<J>,
    pub known: BTreeMap<String, u64>,
    pub phase_info: Vec<J>,
    pub exhaustive_phases: Vec<String>,
    pub digests: Vec<u64>,
}

impl Stats {
    fn absorb(&mut self, o: &mut Outcome) {
        self.evals += o.evals.max(1);
        self.cases += 1;
        // one entry per case (0 = the case has no digest) so that the index in the digest file IS the case index
        self.digests.push(o.digest.unwrap_or(0));
        if let Some(fp) = o.nontrivial {
            let new = self.fps.insert(fp);
            if new && self.samples.len() < 6 {
                if let Some(s) = o.sample.take() {
                    self.samples.push(s);
                }
            }
        }
        for c in &o.classes {
            *self.classes.entry(c.to_string()).or_insert(0) += 1;
        }
        for k in &o.known {
            *self.known.entry(k.clone()).or_insert(0) += 1;
        }
    }
}

pub struct Journal {
    f: std::fs::File,
}
impl Journal {
    pub fn open(path: &str) -> Self {
        let f = std::fs::OpenOptions::new().create(true).write(true).truncate(true).open(path).expect("journal");
        Journal { f }
    }
    pub fn record(&self, phase: usize, tape: &[u8]) {
        let mut buf = Vec::with_capacity(tape.len() + 16);
        buf.extend_from_slice(&(tape.len() as u64).to_le_bytes());
        buf.extend_from_slice(&(phase as u64).to_le_bytes());
        buf.extend_from_slice(tape);
        let _ = self.f.write_all_at(&buf, 0);
    }
    pub fn clear(&self) {
        let _ = self.f.write_all_at(&[0xffu8; 16], 0);
    }
}

pub fn read_journal(path: &str) -> Option<(usize, Vec<u8>)> {
    let d = std::fs::read(path).ok()?;
    if d.len() < 16 {
        return None;
    }
    let n = u64::from_le_bytes(d[0..8].try_into().unwrap());
    let ph = u64::from_le_bytes(d[8..16].try_into().unwrap());
    if n == u64::MAX || (n as usize) > d.len() - 16 {
        return None;
    }
    Some((ph as usize, d[16..16 + n as usize].to_vec()))
}

/// Pack file of tapes: repeated [u32 LE length][bytes]
pub fn read_pack(path: &str) -> Vec<Vec<u8>> {
    let mut v = Vec::new();
    if let Ok(d) = std::fs::read(path) {
        let mut i = 0usize;
        while i + 4 <= d.len() {
            let n = u32::from_le_bytes(d[i..i + 4].try_into().unwrap()) as usize;
            i += 4;
            if i + n > d.len() {
                break;
            }
            v.push(d[i..i + n].to_vec());
            i += n;
        }
    }
    v
}

/// Replay file format: b"VREPLAY <id> <phase>\n" + raw tape bytes
pub fn write_replay(path: &str, id: &str, phase: usize, tape: &[u8]) {
    let mut f = std::fs::File::create(path).expect("replay file");
    let _ = f.write_all(format!("VREPLAY {} {}\n", id, phase).as_bytes());
    let _ = f.write_all(tape);
}

pub fn read_replay(path: &str) -> Option<(String, usize, Vec<u8>)> {
    let d = std::fs::read(path).ok()?;
    let nl = d.iter().position(|&b| b == b'\n')?;
    let head = std::str::from_utf8(&d[..nl]).ok()?;
    let mut it = head.split(' ');
    if it.next()? != "VREPLAY" {
        return None;
    }
    let id = it.next()?.to_string();
    let ph: usize = it.next()?.parse().ok()?;
    Some((id, ph, d[nl + 1..].to_vec()))
}

pub struct RunResult {
    pub stats: Stats,
    pub fail: Option<(usize, Vec<u8>, Fail)>,
}

pub fn run_property(prop: &Property, ctx: &mut Ctx, journal: &Journal, only_phase: Option<usize>) -> RunResult {
    let dump_case: Option<(usize, String)> = std::env::var("VERIF_DUMP_CASE").ok().and_then(|s| { let mut it = s.splitn(2, ':'); Some((it.next()?.parse().ok()?, it.next()?.to_string())) });
    let case_counter = RefCell::new(0usize);
    let mut stats = Stats::default();
    let mut failure: Option<(usize, Vec<u8>, Fail)> = None;
    for (pi, ph) in prop.phases.iter().enumerate() {
        if let Some(op) = only_phase {
            if op != pi {
                continue;
            }
        }
        if failure.is_some() {
            break;
        }
        let t0 = std::time::Instant::now();
        match ph {
            Phase::Prop { name, f, quick, thorough, max_tape } => {
                let total = if ctx.tier == Tier::Quick { *quick } else { *thorough };
                let scale: f64 = std::env::var("VERIF_SCALE").ok().and_then(|s| s.parse().ok()).unwrap_or(1.0);
                let total = ((total as f64) * scale).ceil() as u32;
                let per = (total + ctx.nworkers as u32 - 1) / ctx.nworkers as u32;
                let seed = splitmix(ctx.seed ^ splitmix(fnv(prop.id) ^ ((pi as u64) << 32) ^ ctx.worker as u64));
                let cfg = Config {
                    cases: per,
                    failure_persistence: None,
                    rng_algorithm: RngAlgorithm::ChaCha,
                    rng_seed: RngSeed::Fixed(seed),
                    max_shrink_iters: 1500,
                    max_shrink_time: 90_000,
                    max_global_rejects: 1,
                    ..Config::default()
                };
                let mut runner = TestRunner::new(cfg);
                // corpus tier: tapes found by the coverage-guided campaigns (committed pack file
                // $VERIF_CORPUS/<ID>.tapes), split over the workers, executed through the same oracle first
                let mut corpus_n = 0u64;
                if let Ok(dir) = std::env::var("VERIF_CORPUS") {
                    for (i, tape) in read_pack(&format!("{}/{}.tapes", dir, prop.id)).into_iter().enumerate() {
                        if i % ctx.nworkers != ctx.worker {
                            continue;
                        }
                        let tape = &tape[..tape.len().min(*max_tape)];
                        journal.record(pi, tape);
                        let o = f(tape, ctx);
                        if let Some(m) = &o.internal {
                            internal_error(m);
                        }
                        let mut o = ctx.settle(o);
                        corpus_n += 1;
                        if let Some(fl) = o.fail.take() {
                            failure = Some((pi, tape.to_vec(), Fail { sig: fl.sig, msg: format!("[corpus tape] {}", fl.msg) }));
                            break;
                        }
                        stats.absorb(&mut o);
                        // the digest file is indexed by generated-case number: corpus tapes are not in it
                        stats.digests.pop();
                    }
                }
                if failure.is_some() {
                    break;
                }
                let st = RefCell::new(std::mem::take(&mut stats));
                let failed = RefCell::new(false);
                let max_tape = *max_tape;
                let strat = proptest::collection::vec(any::<u8>(), 0..=max_tape);
                let res = runner.run(&strat, |tape| {
                    journal.record(pi, &tape);
                    if let Some((k, path)) = &dump_case {
                        let mut c = case_counter.borrow_mut();
                        if *c == *k {
                            write_replay(path, prop.id, pi, &tape);
                            std::process::exit(0);
                        }
                        *c += 1;
                    }
                    let o = f(&tape, ctx);
                    if let Some(m) = &o.internal {
                        internal_error(m);
                    }
                    let mut o = ctx.settle(o);
                    if let Some(fl) = &o.fail {
                        *failed.borrow_mut() = true;
                        return Err(TestCaseError::fail(fl.sig.clone()));
                    }
                    if !*failed.borrow() {
                        st.borrow_mut().absorb(&mut o);
                    }
                    Ok(())
                });
                stats = st.into_inner();
                match res {
                    Ok(()) => {}
                    Err(TestError::Fail(_reason, tape)) => {
                        journal.record(pi, &tape);
                        let o = ctx.settle(f(&tape, ctx));
                        let fl = o.fail.unwrap_or(Fail { sig: "flaky".into(), msg: "failure did not reproduce on the shrunk tape".into() });
                        failure = Some((pi, tape, fl));
                    }
                    Err(TestError::Abort(r)) => {
                        eprintln!("proptest abort: {}", r);
                        std::process::exit(2);
                    }
                }
                stats.phase_info.push(
                    J::obj()
                        .set("phase", J::s(*name))
                        .set("kind", J::s("proptest"))
                        .set("cases_requested_this_worker", J::U(per as u64))
                        .set("corpus_tapes_this_worker", J::U(corpus_n))
                        .set("wall_s", J::F(t0.elapsed().as_secs_f64())),
                );
            }
            Phase::Enum { name, f, .. } => {
                let mut n = 0u64;
                let mut fl: Option<(Vec<u8>, Fail)> = None;
                {
                    let mut sink = |bytes: &[u8], o: Option<Outcome>| -> bool {
                        let o = match o {
                            None => {
                                journal.record(pi, bytes);
                                return true;
                            }
                            Some(o) => o,
                        };
                        if let Some(m) = &o.internal {
                            internal_error(m);
                        }
                        let mut o = ctx.settle(o);
                        n += 1;
                        if let Some(x) = o.fail.take() {
                            fl = Some((bytes.to_vec(), x));
                            return false;
                        }
                        stats.absorb(&mut o);
                        true
                    };
                    f(ctx, &mut sink);
                }
                if let Some((b, x)) = fl {
                    failure = Some((pi, b, x));
                } else {
                    stats.exhaustive_phases.push(name.to_string());
                }
                stats.phase_info.push(
                    J::obj()
                        .set("phase", J::s(*name))
                        .set("kind", J::s("enumeration"))
                        .set("cases_this_worker", J::U(n))
                        .set("wall_s", J::F(t0.elapsed().as_secs_f64())),
                );
            }
        }
    }
    journal.clear();
    RunResult { stats, fail: failure }
}

pub fn replay_case(prop: &Property, ctx: &Ctx, phase: usize, tape: &[u8]) -> Outcome {
    match &prop.phases[phase.min(prop.phases.len() - 1)] {
        Phase::Prop { f, .. } => ctx.settle(f(tape, ctx)),
        Phase::Enum { replay, .. } => ctx.settle(replay(tape, ctx)),
    }
}

/// an oracle/harness defect: leave the journal in place (the driver keeps it) and exit 2
pub fn internal_error(m: &str) -> ! {
    eprintln!("INTERNAL-ERROR (oracle or harness defect, not a verdict): {}", m);
    println!("INTERNAL-ERROR {}", m);
    std::process::exit(2)
}

fn fnv(s: &str) -> u64 {
    crate::tape::fnv64(s.as_bytes())
}

pub fn write_result(path: &str, prop: &Property, ctx: &Ctx, rr: &RunResult, replay_path: Option<&str>, wall: f64) {
    let st = &rr.stats;
    // fingerprints to side file
    let fp_path = format!("{}.fp", path);
    let mut fb = Vec::with_capacity(st.fps.len() * 8);
    for v in &st.fps {
        fb.extend_from_slice(&v.to_le_bytes());
    }
    std::fs::write(&fp_path, fb).expect("fp file");
    if !st.digests.is_empty() {
        let mut db = Vec::with_capacity(st.digests.len() * 8);
        for v in &st.digests {
            db.extend_from_slice(&v.to_le_bytes());
        }
        std::fs::write(format!("{}.dig", path), db).expect("digest file");
    }
    let mut j = J::obj()
        .set("property_id", J::s(prop.id))
        .set("variant", J::s(ctx.variant.clone()))
        .set("worker", J::U(ctx.worker as u64))
        .set("evals", J::U(st.evals))
        .set("cases", J::U(st.cases))
        .set("nontrivial_local", J::U(st.fps.len() as u64))
        .set("fp_file", J::s(fp_path))
        .set("classes", J::from_map(&st.classes))
        .set("known", J::from_map(&st.known))
        .set("samples", J::A(st.samples.clone()))
        .set("phases", J::A(st.phase_info.clone()))
        .set("exhaustive_phases", J::A(st.exhaustive_phases.iter().map(|s| J::s(s.clone())).collect()))
        .set("rule", J::s(prop.rule))
        .set("wall_s", J::F(wall));
    match &rr.fail {
        Some((ph, tape, fl)) => {
            j.put(
                "fail",
                J::obj()
                    .set("phase", J::U(*ph as u64))
                    .set("sig", J::s(fl.sig.clone()))
                    .set("msg", J::s(fl.msg.clone()))
                    .set("tape_len", J::U(tape.len() as u64))
                    .set("replay", J::s(replay_path.unwrap_or(""))),
            );
        }
        None => j.put("fail", J::Null),
    }
    std::fs::write(path, j.to_string()).expect("result file");
}
