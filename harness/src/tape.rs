//! The tape: every random choice of a generated case is a byte of this string.
//! An exhausted tape yields zeros, which decode to the simplest case.
//! Index maps are monotone (never `%`) so that proptest's byte shrinking
//! (towards 0) shrinks the decoded case.

pub struct Tape<'a> {
    d: &'a [u8],
    p: usize,
}

impl<'a> Tape<'a> {
    pub fn new(d: &'a [u8]) -> Self {
        Tape { d, p: 0 }
    }
    pub fn exhausted(&self) -> bool {
        self.p >= self.d.len()
    }
    pub fn remaining(&self) -> usize {
        self.d.len().saturating_sub(self.p)
    }
    pub fn u8(&mut self) -> u8 {
        let v = self.d.get(self.p).copied().unwrap_or(0);
        self.p += 1;
        v
    }
    pub fn u16(&mut self) -> u16 {
        let a = self.u8() as u16;
        let b = self.u8() as u16;
        (a << 8) | b
    }
    pub fn u32(&mut self) -> u32 {
        let a = self.u16() as u32;
        let b = self.u16() as u32;
        (a << 16) | b
    }
    pub fn u64(&mut self) -> u64 {
        let a = self.u32() as u64;
        let b = self.u32() as u64;
        (a << 32) | b
    }
    pub fn bool(&mut self) -> bool {
        self.u8() >= 128
    }
    /// true with probability num/256
    pub fn chance(&mut self, num: u32) -> bool {
        (self.u8() as u32) >= 256 - num.min(256)
    }
    /// uniform in 0..n (n >= 1), monotone in the tape bytes
    pub fn below(&mut self, n: usize) -> usize {
        if n <= 1 {
            return 0;
        }
        if n <= 256 {
            (self.u8() as usize * n) >> 8
        } else if n <= 65536 {
            (self.u16() as usize * n) >> 16
        } else {
            ((self.u32() as u64 * n as u64) >> 32) as usize
        }
    }
    /// inclusive range
    pub fn range(&mut self, lo: usize, hi: usize) -> usize {
        debug_assert!(lo <= hi);
        lo + self.below(hi - lo + 1)
    }
    pub fn pick<T: Copy>(&mut self, t: &[T]) -> T {
        t[self.below(t.len())]
    }
    pub fn bytes(&mut self, k: usize) -> Vec<u8> {
        (0..k).map(|_| self.u8()).collect()
    }
}

/// splitmix64: used to derive worker seeds and to expand bulk data from
/// tape-chosen parameters (a pure function of the tape).
pub fn splitmix(x: u64) -> u64 {
    let mut z = x.wrapping_add(0x9E3779B97F4A7C15);
    z = (z ^ (z >> 30)).wrapping_mul(0xBF58476D1CE4E5B9);
    z = (z ^ (z >> 27)).wrapping_mul(0x94D049BB133111EB);
    z ^ (z >> 31)
}

pub struct Xs(pub u64);
impl Xs {
    pub fn new(seed: u64) -> Self {
        Xs(splitmix(seed) | 1)
    }
    pub fn next(&mut self) -> u64 {
        let mut x = self.0;
        x ^= x << 13;
        x ^= x >> 7;
        x ^= x << 17;
        self.0 = x;
        x.wrapping_mul(0x2545F4914F6CDD1D)
    }
    pub fn below(&mut self, n: usize) -> usize {
        if n <= 1 {
            0
        } else {
            ((self.next() >> 32) as usize * n) >> 32
        }
    }
}

pub fn fnv64(data: &[u8]) -> u64 {
    let mut h: u64 = 0xcbf29ce484222325;
    for &b in data {
        h ^= b as u64;
        h = h.wrapping_mul(0x100000001b3);
    }
    h
}

pub struct Fp(pub u64);
impl Fp {
    pub fn new() -> Self {
        Fp(0xcbf29ce484222325)
    }
    pub fn add(&mut self, v: u64) -> &mut Self {
        self.0 = splitmix(self.0 ^ v);
        self
    }
    pub fn bytes(&mut self, b: &[u8]) -> &mut Self {
        let h = fnv64(b);
        self.add(h).add(b.len() as u64)
    }
}
