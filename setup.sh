#!/bin/sh
# offline build of the harness (verdict build); other variants are built on demand by ./check
set -e
cd /verif
export CARGO_NET_OFFLINE=true
./check build
