#!/bin/sh
# offline build of the harness: the verdict build (ref) must succeed; the other variants used by quick tiers
# (scalar/avx512 for C09/C10, strict for variant-tagged regression tapes) are pre-built here so the quick commands
# only re-link; ./check rebuilds whatever changed in /repo on every run anyway.
set -e
cd /verif
export CARGO_NET_OFFLINE=true
./check build
./check build strict scalar avx512 || true
