#!/bin/bash
# usage: tools/confirmseed.sh <scratch-worktree>   confirms a sub-agent's seeded change in its scratch worktree:
# with patch.diff applied the demo (tests/seed_demo.rs) fails and the pinned suite passes; without it the demo passes.
W=$1; cd $W || exit 9
export CARGO_NET_OFFLINE=true
git checkout -q -- . ; git apply patch.diff || { echo "CONFIRM $W: patch does not apply"; exit 9; }
cargo test --workspace --offline --test seed_demo >demo_with.log 2>&1; d1=$?
cargo nextest run --workspace --no-fail-fast --offline --test-threads 8 -E 'not binary(seed_demo)' >suite_with.log 2>&1; s1=$?
git apply -R patch.diff
cargo test --workspace --offline --test seed_demo >demo_without.log 2>&1; d0=$?
echo "CONFIRM $W: demo-with-patch rc=$d1 (want !=0), suite-with-patch rc=$s1 (want 0) [$(grep -E 'Summary' suite_with.log | tail -1)], demo-without rc=$d0 (want 0)"
