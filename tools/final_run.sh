#!/bin/bash
# background end-game run inside a `vp run --with-repo` snapshot: thorough re-runs, multi-seed silence sweep, seed matrix
sed -i "s#\"/repo/#\"$VP_RUN_REPO/#g" harness/Cargo.toml
for p in C16 C12; do ./check $p thorough 2>&1 | grep -vE "^KNOWN-FINDING" | tail -6 | cut -c1-600; done
echo "=== SWEEP"
for s in 2 3 7 12345; do for p in C01 C02 C03 C04 C05 C06 C07 C08 C09 C10 C11 C12 C13 C14 C15 C16 C17 C18 C19 C20; do VERIF_SEED=$s ./check $p quick 2>&1 | grep -E "seed=|VIOLATION|INCONCLUSIVE" | cut -c1-300; done; done
echo "=== MATRIX"
VERIF_DIR=$PWD REPO_DIR=$VP_RUN_REPO tools/seedmatrix.sh
echo "=== DONE"
