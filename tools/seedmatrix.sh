#!/bin/bash
# runs every seeded change against the check(s) listed for it in tools/seedmap.txt (quick tier); one line per pair
V=${VERIF_DIR:-/verif}
while read -r seed checks; do
  $V/tools/seedtest.sh $seed $checks
done < $V/tools/seedmap.txt
