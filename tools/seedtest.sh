#!/bin/bash
# usage: tools/seedtest.sh <seed-name> <check-id>...   applies /verif/seeded/<seed>/patch.diff to /repo, runs the
# quick checks, restores /repo. Prints one line per check: CAUGHT / MISSED / INCONCLUSIVE
S=$1; shift
V=${VERIF_DIR:-/verif}; R=${REPO_DIR:-/repo}
cd $V
if [ -n "$(git -C $R status --porcelain --untracked-files=no)" ]; then echo "/repo not clean"; exit 9; fi
git -C $R apply $V/seeded/$S/patch.diff || { echo "patch does not apply"; exit 9; }
for c in "$@"; do
  out=$(VERIF_SEED=${VERIF_SEED:-1} ./check $c ${TIER:-quick} 2>&1); rc=$?
  sig=$(echo "$out" | grep -E "^  [^ ]+: " | head -1 | cut -c1-160)
  case $rc in
    1) echo "$S $c CAUGHT $sig";;
    0) echo "$S $c MISSED";;
    *) echo "$S $c INCONCLUSIVE rc=$rc $(echo "$out" | tail -2 | tr '\n' ' ' | cut -c1-200)";;
  esac
done
git -C $R checkout -- .
git -C $V checkout -- evidence 2>/dev/null
