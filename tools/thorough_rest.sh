#!/bin/bash
sed -i "s#\"/repo/#\"$VP_RUN_REPO/#g" harness/Cargo.toml
for p in C16 C19 C04 C08 C20 C07 C09 C10 C14 C18 C17; do ./check $p thorough 2>&1 | grep -vE "^KNOWN-FINDING" | tail -6 | cut -c1-600; echo "rc-of-$p done"; done
