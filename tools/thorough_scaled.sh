#!/bin/bash
sed -i "s#\"/repo/#\"$VP_RUN_REPO/#g" harness/Cargo.toml
for p in C14 C18 C17; do VERIF_SCALE=0.12 ./check $p thorough 2>&1 | grep -vE "^KNOWN-FINDING" | tail -4 | cut -c1-400; echo "rc-of-$p done"; done
